package c16

import (
	"context"
	"encoding/json"
	"fmt"
	"sync"
	"testing"
	gotime "time"

	"pgregory.net/rapid"

	"github.com/yorkie-team/yorkie/api/types"
	"github.com/yorkie-team/yorkie/client"
	"github.com/yorkie-team/yorkie/pkg/document"
	yjson "github.com/yorkie-team/yorkie/pkg/document/json"
	"github.com/yorkie-team/yorkie/pkg/document/presence"
	"github.com/yorkie-team/yorkie/pkg/key"
	"github.com/yorkie-team/yorkie/server/projects"

	"verifharness/kit"
	"verifharness/stats"
	"verifharness/world"
)

// A GCRace is an owned schedule around the two reads a PushPull makes for its
// answer: the range of changes it returns (fixed when its push phase ends) and
// the minimum version vector it hands out for garbage collection (computed
// later, from the vector rows of all attached clients). A request of client C
// is parked between the two (DB decorator: before UpdateMinVersionVector or
// before/after the range read); meanwhile client B pushes a change that it
// made WITHOUT knowing a removal R (it references what R removed) and then
// reports, with its next request, that it has seen R. When C's request goes
// on, every row covers R. C03/C16: a tombstone referenced by a change C has not
// received yet must be kept - C's later syncs must succeed and replicas converge.
type GCRace struct {
	Kind  int `json:"kind"`  // 0: array element deleted by both; 1: text range deleted by A, B inserts inside/next to it; 2: array: B moves/sets next to it
	Park  int `json:"park"`  // gcParkNames
	BReqs int `json:"breqs"` // how many requests B completes while C's is parked (1: push only the conflicting change; 2: also report R as seen; 3: once more)
	Extra int `json:"extra"` // extra synced edits of A before the episode (clock skew)
	// Attach != 0: the frozen request is the ATTACH of a new client D (frozen after its pull range was read, before its
	// vector row exists); meanwhile A removes, and A and B sync twice (they may purge: no row of D holds them back); D is
	// released, sees the removed content alive, edits next to / on it (Kind) and pushes.
	Attach int `json:"attach"`
	Snap   int `json:"snap"` // != 0: the project's snapshot threshold; after C has seen R, A makes Snap+1 more edits so that C's parked request is answered by a snapshot (server-side GC at build time)
}

var gcParkNames = []string{"UpdateMinVersionVector/before", "FindChangeInfosBetweenServerSeqs/before", "FindChangeInfosBetweenServerSeqs/after", "UpdateClientInfoAfterPushPull/before",
	"FindClosestSnapshotInfo/before", "FindChangesBetweenServerSeqs/before"}

func genGCRace() *rapid.Generator[GCRace] {
	return rapid.Custom(func(t *rapid.T) GCRace {
		return GCRace{
			Kind:   rapid.IntRange(0, 2).Draw(t, "kind"),
			Park:   rapid.IntRange(0, len(gcParkNames)-1).Draw(t, "park"),
			BReqs:  rapid.IntRange(1, 3).Draw(t, "breqs"),
			Extra:  rapid.IntRange(0, 3).Draw(t, "extra"),
			Snap:   max(0, rapid.IntRange(-2, 3).Draw(t, "snap")),
			Attach: max(0, rapid.IntRange(-2, 1).Draw(t, "attach")),
		}
	})
}

func runGCRace(c GCRace) (fail *kit.Failure, ev map[string]int, hist []string) {
	ev = map[string]int{}
	logf := func(f string, a ...any) { hist = append(hist, fmt.Sprintf(f, a...)) }
	s := world.Get()
	ctx, cancelAll := context.WithTimeout(context.Background(), 60*gotime.Second)
	defer cancelAll()
	proj := s.Project(1000, 1000, "c16gc")
	if c.Snap > 0 {
		proj = s.Project(1000, int64(c.Snap), "c16gc")
	}
	dk := key.Key(world.FreshDocKey("c16gc"))
	defer s.DB.SetHook(nil)

	var ps []*gcPeer
	defer func() {
		for _, p := range ps {
			_ = p.c.Deactivate(ctx)
			_ = p.c.Close()
		}
		s.WaitIdle()
	}()
	for i := 0; i < 3; i++ {
		cl, err := s.NewClient(ctx, proj)
		if err != nil {
			return kit.Failf("HARNESS", "client: %v", err), ev, hist
		}
		d := document.New(dk)
		if err := cl.Attach(ctx, d); err != nil {
			return kit.Failf("ATTACHFAIL", "setup: %v", err), ev, hist
		}
		ps = append(ps, &gcPeer{cl, d})
		if i == 0 {
			if err := d.Update(func(r *yjson.Object, _ *presence.Presence) error {
				a := r.SetNewArray("a")
				a.AddInteger(1)
				a.AddInteger(2)
				a.AddInteger(3)
				r.SetNewText("t").Edit(0, 0, "abcdef")
				return nil
			}); err != nil {
				return kit.Failf("HARNESS", "init: %v", err), ev, hist
			}
			if err := cl.Sync(ctx); err != nil {
				return kit.Failf("SYNCFAIL", "setup: %v", err), ev, hist
			}
		}
	}
	if c.Attach != 0 {
		// only A and B keep vector rows
		if err := ps[2].c.Detach(ctx, ps[2].d); err != nil {
			return kit.Failf("DETACHFAIL", "setup: %v", err), ev, hist
		}
		s.WaitIdle()
		for _, p := range []*gcPeer{ps[0], ps[1], ps[0], ps[1]} {
			if err := p.c.Sync(ctx); err != nil {
				return kit.Failf("SYNCFAIL", "setup: %v", err), ev, hist
			}
			s.WaitIdle()
		}
		return runAttachRace(ctx, s, proj, dk, c, ps[0], ps[1], ev, &hist)
	}
	A, B, C := ps[0], ps[1], ps[2]
	syncOf := func(name string, p *gcPeer) *kit.Failure {
		if err := p.c.Sync(ctx); err != nil {
			return kit.Failf("SYNCFAIL", "%s: %v", name, err)
		}
		s.WaitIdle()
		return nil
	}
	for _, p := range []*gcPeer{A, B, C, A, B, C} {
		if f := syncOf("setup", p); f != nil {
			return f, ev, hist
		}
	}
	upd := func(p *gcPeer, f func(r *yjson.Object)) error {
		return p.d.Update(func(r *yjson.Object, _ *presence.Presence) error { f(r); return nil })
	}
	for i := 0; i < c.Extra; i++ {
		_ = upd(A, func(r *yjson.Object) { r.SetInteger("x", i) })
		if f := syncOf("A", A); f != nil {
			return f, ev, hist
		}
	}
	// R: A removes; B, not knowing R, makes a change that references what R removed
	switch c.Kind {
	case 0:
		_ = upd(A, func(r *yjson.Object) { r.GetArray("a").Delete(1) })
		_ = upd(B, func(r *yjson.Object) { r.GetArray("a").Delete(1) })
	case 1:
		_ = upd(A, func(r *yjson.Object) { r.GetText("t").Edit(1, 5, "") })
		_ = upd(B, func(r *yjson.Object) { r.GetText("t").Edit(3, 3, "X") })
	case 2:
		_ = upd(A, func(r *yjson.Object) { r.GetArray("a").Delete(1) })
		_ = upd(B, func(r *yjson.Object) { r.GetArray("a").InsertIntegerAfter(1, 9) })
	}
	logf("A removes (R); B, not knowing R, makes a change referencing what R removed (kind %d)", c.Kind)
	// A pushes R; C pulls R and reports it as seen (two syncs); B stays away
	for _, st := range []struct {
		n string
		p *gcPeer
	}{{"A", A}, {"A", A}, {"C", C}, {"C", C}} {
		if f := syncOf(st.n, st.p); f != nil {
			return f, ev, hist
		}
	}
	if c.Snap > 0 {
		// C falls behind the snapshot threshold (it has seen R): its parked request is answered by a snapshot
		for i := 0; i < c.Snap+1; i++ {
			_ = upd(A, func(r *yjson.Object) { r.SetInteger("y", i) })
			if f := syncOf("A", A); f != nil {
				return f, ev, hist
			}
		}
		s.BE.Cache.Snapshot.Purge()
		ev["snapshot_variant"]++
	}
	garbageBefore := C.d.GarbageLen()

	// park C's next request between its range decision and its minimum vector
	var mu sync.Mutex
	parkedOnce := false
	parked := make(chan struct{}, 1)
	release := make(chan struct{})
	s.DB.SetHook(func(hctx context.Context, method string, ph world.Phase, _ any) error {
		if !projects.HasProject(hctx) {
			return nil
		}
		name := method + "/" + map[world.Phase]string{world.Before: "before", world.After: "after"}[ph]
		mu.Lock()
		doPark := !parkedOnce && name == gcParkNames[c.Park]
		if doPark {
			parkedOnce = true
		}
		mu.Unlock()
		if doPark {
			parked <- struct{}{}
			<-release
		}
		return nil
	})
	cdone := make(chan error, 1)
	go func() { cdone <- C.c.Sync(ctx) }()
	select {
	case <-parked:
		ev["parked"]++
		ev["parked@"+gcParkNames[c.Park]]++
	case err := <-cdone:
		close(release)
		s.DB.SetHook(nil)
		ev["not_parked"]++
		if err != nil {
			return kit.Failf("SYNCFAIL", "C: %v", err), ev, hist
		}
		return nil, ev, hist
	case <-gotime.After(20 * gotime.Second):
		close(release)
		return kit.Failf("HARNESS", "C's request neither parked nor returned"), ev, hist
	}
	// B: pushes its conflicting change, then reports R as seen
	releasedC := false
	for i := 0; i < c.BReqs; i++ {
		bd := make(chan error, 1)
		go func() { bd <- B.c.Sync(ctx) }()
		select {
		case err := <-bd:
			if err != nil {
				close(release)
				return kit.Failf("SYNCFAIL", "B (request %d while C's request is parked): %v", i+1, err), ev, hist
			}
			ev["b_requests_while_parked"]++
		case <-gotime.After(2 * gotime.Second):
			// B has to wait for C's request (it holds something B needs): let C go on, then wait for B
			ev["b_waited_for_c"]++
			close(release)
			releasedC = true
			if err := <-bd; err != nil {
				return kit.Failf("SYNCFAIL", "B: %v", err), ev, hist
			}
		}
		if releasedC {
			break
		}
	}
	if !releasedC {
		close(release)
	}
	if err := <-cdone; err != nil {
		return kit.Failf("SYNCFAIL", "C (the parked request): %v", err), ev, hist
	}
	s.DB.SetHook(nil)
	s.WaitIdle()
	if C.d.GarbageLen() < garbageBefore {
		ev["c_purged_after_the_parked_request"]++
		logf("C purged %d tombstones with the minimum vector of the parked request", garbageBefore-C.d.GarbageLen())
	}
	// everybody synchronises: nothing may fail, replicas converge
	for round := 0; round < 3; round++ {
		for i, p := range []*gcPeer{C, A, B} {
			if err := p.c.Sync(ctx); err != nil {
				return kit.Failf("SYNCFAIL", "%s, round %d after the parked request (kind %d, parked at %s, B made %d requests meanwhile; C purged: %v): %v",
					[]string{"C", "A", "B"}[i], round, c.Kind, gcParkNames[c.Park], c.BReqs, ev["c_purged_after_the_parked_request"] > 0, err), ev, hist
			}
			s.WaitIdle()
		}
	}
	if a, b, cc := A.d.Marshal(), B.d.Marshal(), C.d.Marshal(); a != b || a != cc {
		return kit.Failf("DIVERGED", "A %s\nB %s\nC %s", a, b, cc), ev, hist
	}
	return nil, ev, hist
}

type gcPeer struct {
	c *client.Client
	d *document.Document
}

// runAttachRace: see GCRace.Attach. (The third client of the setup stays attached and idle: it keeps a vector row
// that does not cover the removal only until its own syncs - it syncs along with A and B.)
func runAttachRace(ctx context.Context, s *world.Server, proj *types.Project, dk key.Key, c GCRace, A, B *gcPeer, ev map[string]int, hist *[]string) (*kit.Failure, map[string]int, []string) {
	logf := func(f string, a ...any) { *hist = append(*hist, fmt.Sprintf(f, a...)) }
	ev["attach_variant"]++
	upd := func(p *gcPeer, f func(r *yjson.Object)) error {
		return p.d.Update(func(r *yjson.Object, _ *presence.Presence) error { f(r); return nil })
	}
	// (no WaitIdle here: it must not be called while a request - the frozen attach - is in flight)
	sync2 := func(ps ...*gcPeer) *kit.Failure {
		for _, p := range ps {
			if err := p.c.Sync(ctx); err != nil {
				return kit.Failf("SYNCFAIL", "%v", err)
			}
		}
		return nil
	}
	// the idle third client of the setup leaves, so that only A and B hold rows
	// (found by listing the project's clients is not needed: the caller attached three; detach the third here)
	points := []string{"FindChangeInfosBetweenServerSeqs/after", "FindChangeInfosBetweenServerSeqs/before", "CreateChangeInfos/after", "UpdateMinVersionVector/before", "GetMinVersionVector/after"}
	pname := points[c.Park%len(points)]
	var mu sync.Mutex
	parkedOnce := false
	parked := make(chan struct{}, 1)
	release := make(chan struct{})
	s.DB.SetHook(func(hctx context.Context, method string, ph world.Phase, _ any) error {
		if !projects.HasProject(hctx) {
			return nil
		}
		n := method + "/" + map[world.Phase]string{world.Before: "before", world.After: "after"}[ph]
		mu.Lock()
		doPark := !parkedOnce && n == pname
		if doPark {
			parkedOnce = true
		}
		mu.Unlock()
		if doPark {
			parked <- struct{}{}
			<-release
		}
		return nil
	})
	defer s.DB.SetHook(nil)
	cl, err := s.NewClient(ctx, proj)
	if err != nil {
		return kit.Failf("HARNESS", "client: %v", err), ev, *hist
	}
	defer func() { _ = cl.Deactivate(ctx); _ = cl.Close() }()
	D := &gcPeer{cl, document.New(dk)}
	adone := make(chan error, 1)
	go func() { adone <- cl.Attach(ctx, D.d) }()
	select {
	case <-parked:
		ev["parked"]++
		ev["attach_parked@"+pname]++
	case err := <-adone:
		close(release)
		ev["not_parked"]++
		if err != nil {
			return kit.Failf("ATTACHFAIL", "D: %v", err), ev, *hist
		}
		return nil, ev, *hist
	case <-gotime.After(20 * gotime.Second):
		close(release)
		return kit.Failf("HARNESS", "D's attach neither parked nor returned"), ev, *hist
	}
	// meanwhile: A removes; A and B (and nobody else) report it as seen
	switch c.Kind {
	case 1:
		_ = upd(A, func(r *yjson.Object) { r.GetText("t").Edit(1, 5, "") })
	default:
		_ = upd(A, func(r *yjson.Object) { r.GetArray("a").Delete(1) })
	}
	logf("D's attach is frozen at %s; A removes (kind %d); A and B sync twice", pname, c.Kind)
	releasedD := false
	wdone := make(chan *kit.Failure, 1)
	go func() { wdone <- sync2(A, B, A, B, A, B) }()
	select {
	case f := <-wdone:
		if f != nil {
			close(release)
			<-adone
			return f, ev, *hist
		}
		ev["b_requests_while_parked"] += 2
	case <-gotime.After(3 * gotime.Second):
		ev["world_waited_for_the_frozen_attach"]++
		close(release)
		releasedD = true
		if f := <-wdone; f != nil {
			<-adone
			return f, ev, *hist
		}
	}
	if A.d.GarbageLen() == 0 && B.d.GarbageLen() == 0 {
		ev["a_and_b_purged_while_the_attach_was_frozen"]++
		logf("A and B have purged the removed content")
	}
	if !releasedD {
		close(release)
	}
	if err := <-adone; err != nil {
		return kit.Failf("ATTACHFAIL", "D (frozen at %s): %v", pname, err), ev, *hist
	}
	s.DB.SetHook(nil)
	s.WaitIdle()
	// D edits what it sees (it may not have learnt of the removal yet), then everybody syncs
	switch c.Kind {
	case 0:
		_ = upd(D, func(r *yjson.Object) {
			if a := r.GetArray("a"); a != nil && a.Len() > 1 {
				a.Delete(1)
			}
		})
	case 1:
		_ = upd(D, func(r *yjson.Object) {
			if t := r.GetText("t"); t != nil && len(t.String()) >= 3 {
				t.Edit(3, 3, "X")
			}
		})
	default:
		_ = upd(D, func(r *yjson.Object) {
			if a := r.GetArray("a"); a != nil && a.Len() > 1 {
				a.InsertIntegerAfter(1, 9)
			}
		})
	}
	for round := 0; round < 3; round++ {
		for i, p := range []*gcPeer{D, A, B} {
			if err := p.c.Sync(ctx); err != nil {
				return kit.Failf("SYNCFAIL", "%s, round %d after D's attach had been frozen at %s while A removed (kind %d) and A, B synced (purged: %v): %v",
					[]string{"D", "A", "B"}[i], round, pname, c.Kind, ev["a_and_b_purged_while_the_attach_was_frozen"] > 0, err), ev, *hist
			}
			s.WaitIdle()
		}
	}
	if a, b, d := A.d.Marshal(), B.d.Marshal(), D.d.Marshal(); a != b || a != d {
		return kit.Failf("DIVERGED", "A %s\nB %s\nD %s", a, b, d), ev, *hist
	}
	return nil, ev, *hist
}

func gcHash(c GCRace) uint64 {
	b, _ := json.Marshal(c)
	var h uint64 = 1469598103934665603
	for _, x := range b {
		h = (h ^ uint64(x)) * 1099511628211
	}
	return h
}

func TestC16GCRace(t *testing.T) {
	col := stats.New("C16", "gcrace")
	defer col.Flush(true)
	var failed *kit.Failure
	var failedCase GCRace
	var failedHist []string
	defer func() {
		if failed != nil {
			path := kit.WriteReplay("C16", "gcrace", fmt.Sprintf("gcrace-%016x", gcHash(failedCase)), failedCase, failed, failedHist)
			col.AddViolation(stats.Violation{Replay: path, Kind: failed.Kind, Msg: failed.Msg})
			kit.ReportViolation("C16", path, failed)
		}
	}()
	rapid.Check(t, func(rt *rapid.T) {
		c := genGCRace().Draw(rt, "case")
		kit.SetInflight(childEnv, "gcrace", "gcrace", fmt.Sprintf("gcrace-%016x", gcHash(c)), c)
		f, ev, hist := runGCRace(c)
		classes := map[string]int{}
		for k, v := range ev {
			classes[k] = v
		}
		col.Record(gcHash(c), f == nil && ev["parked"] > 0 && ev["b_requests_while_parked"] >= 2, classes, func() any {
			return map[string]any{"case": c, "history": hist}
		})
		if f != nil {
			if f.Kind == "HARNESS" {
				fmt.Printf("HARNESS-ERROR property=C16 %s\n", f.Msg)
				rt.Fatalf("harness: %s", f.Msg)
			}
			failed, failedCase, failedHist = f, c, hist
			rt.Fatalf("%s", f.Error())
		}
	})
}

func replayGCRace(raw json.RawMessage) *kit.Failure {
	var c GCRace
	if err := json.Unmarshal(raw, &c); err != nil {
		return kit.Failf("HARNESS", "%v", err)
	}
	f, _, hist := runGCRace(c)
	for _, h := range hist {
		fmt.Println("  " + h)
	}
	return f
}
