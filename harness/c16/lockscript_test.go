package c16

import (
	"context"
	"encoding/json"
	"fmt"
	"net/http"
	"strings"
	"sync"
	"testing"
	gotime "time"

	"connectrpc.com/connect"
	"pgregory.net/rapid"

	api "github.com/yorkie-team/yorkie/api/yorkie/v1"
	"github.com/yorkie-team/yorkie/api/yorkie/v1/v1connect"
	"github.com/yorkie-team/yorkie/client"
	"github.com/yorkie-team/yorkie/pkg/document"
	"github.com/yorkie-team/yorkie/pkg/key"
	"github.com/yorkie-team/yorkie/server/documents"

	"verifharness/kit"
	"verifharness/prog"
	"verifharness/stats"
	"verifharness/world"
)

// A LockScript is a three-request schedule that the harness *owns* through the
// lock hook (H3): request "Parked" runs until it is about to take its
// (Pause+1)-th named lock and is held there; then request "Second" is started
// and given time to reach its own blocking point; then a "Writer" (something
// that takes the document lock exclusively) is started; then the parked
// request is let go. Every request must complete (C16: every request
// completes, no goroutine blocks forever). A lock taken against the documented
// order shows up here as a real deadlock, not as a discipline report.
type LockScript struct {
	Parked string `json:"parked"` // deactivate | detach | sync | attach2
	Second string `json:"second"` // sync | detach | deactivate | attach2 | none
	Writer string `json:"writer"` // compact | compactforce | purgecache | none
	Pause  int    `json:"pause"`  // park before the (Pause+1)-th acquisition of the parked request (1..3)
	Remove bool   `json:"remove"` // project with RemoveOnDetach (attachment lock taken by attach/detach)
}

var lsParked = []string{"deactivate", "deactivate", "detach", "sync", "attach2"}
var lsSecond = []string{"sync", "sync", "detach", "deactivate", "attach2", "none"}
var lsWriter = []string{"compact", "compactforce", "compactforce", "none"}

func genLockScript() *rapid.Generator[LockScript] {
	return rapid.Custom(func(t *rapid.T) LockScript {
		return LockScript{
			Parked: rapid.SampledFrom(lsParked).Draw(t, "parked"),
			Second: rapid.SampledFrom(lsSecond).Draw(t, "second"),
			Writer: rapid.SampledFrom(lsWriter).Draw(t, "writer"),
			Pause:  rapid.IntRange(1, 3).Draw(t, "pause"),
			Remove: rapid.IntRange(0, 3).Draw(t, "remove") == 0,
		}
	})
}

// request issues one request of client X (real client cx / raw id) on document dk.
func lsRequest(ctx context.Context, kind string, s *world.Server, raw v1connect.YorkieServiceClient, cx *client.Client, dx *document.Document, d2 *document.Document) error {
	switch kind {
	case "sync":
		return cx.Sync(ctx, client.WithKey(dx.Key()))
	case "detach":
		return cx.Detach(ctx, dx)
	case "attach2":
		// the same client attaches a second document (other pull/doc keys)
		return cx.Attach(ctx, d2)
	case "deactivate":
		// raw: the real client object is not meant to be used by two goroutines for this
		_, err := raw.DeactivateClient(ctx, connect.NewRequest(&api.DeactivateClientRequest{ClientId: cx.ID().String(), Synchronous: true}))
		return err
	}
	return nil
}

func runLockScript(ls LockScript) (fail *kit.Failure, ev map[string]int, hist []string) {
	ev = map[string]int{}
	logf := func(f string, a ...any) { hist = append(hist, fmt.Sprintf(f, a...)) }
	s := world.Get()
	ctx, cancelAll := context.WithTimeout(context.Background(), 40*gotime.Second)
	defer cancelAll()
	proj := s.ProjectWith(1000, 1000, "c16ls", ls.Remove)
	dk := key.Key(world.FreshDocKey("c16ls"))
	world.Locks.Install()
	world.Locks.Reset(0)
	defer world.Locks.SetIntercept(nil)

	cx, err := s.NewClient(ctx, proj)
	if err != nil {
		return kit.Failf("HARNESS", "client: %v", err), ev, hist
	}
	cy, err := s.NewClient(ctx, proj)
	if err != nil {
		return kit.Failf("HARNESS", "client: %v", err), ev, hist
	}
	dx, dy := document.New(dk), document.New(dk)
	d2 := document.New(key.Key(world.FreshDocKey("c16ls2")))
	if err := cx.Attach(ctx, dx); err != nil {
		return kit.Failf("ATTACHFAIL", "setup: %v", err), ev, hist
	}
	if err := prog.InitDoc(dx); err != nil {
		return kit.Failf("HARNESS", "init: %v", err), ev, hist
	}
	if err := cx.Sync(ctx); err != nil {
		return kit.Failf("SYNCFAIL", "setup: %v", err), ev, hist
	}
	if err := cy.Attach(ctx, dy); err != nil {
		return kit.Failf("ATTACHFAIL", "setup: %v", err), ev, hist
	}
	_, _ = prog.ApplyEdit(dx, prog.Step{Op: "rootset", A: 1, B: 2})
	_, _ = prog.ApplyEdit(dy, prog.Step{Op: "cinc", B: 5})
	if err := cy.Sync(ctx); err != nil {
		return kit.Failf("SYNCFAIL", "setup: %v", err), ev, hist
	}
	s.WaitIdle()
	raw := v1connect.NewYorkieServiceClient(http.DefaultClient, "http://"+s.Addr,
		connect.WithInterceptors(client.NewAuthInterceptor(proj.PublicKey, "")))

	// park the first request that is about to take its (Pause+1)-th lock
	var mu sync.Mutex
	parkedOnce := false
	parked := make(chan string, 1)
	release := make(chan struct{})
	secondBlocked := make(chan string, 8)
	writerAtLock := make(chan struct{}, 8)
	phase := 0 // 0: parked request only, 1: second request, 2: writer
	world.Locks.SetIntercept(func(class, lk string, held []string) {
		mu.Lock()
		ph := phase
		doPark := ph == 0 && !parkedOnce && len(held) == ls.Pause
		if doPark {
			parkedOnce = true
		}
		mu.Unlock()
		switch {
		case doPark:
			parked <- fmt.Sprintf("holding [%s], about to take %s", strings.Join(held, ","), class)
			<-release
		case ph == 1:
			select {
			case secondBlocked <- fmt.Sprintf("holding [%s], taking %s", strings.Join(held, ","), class):
			default:
			}
		case ph == 2 && class == "doc" && len(held) == 0:
			select {
			case writerAtLock <- struct{}{}:
			default:
			}
		}
	})

	type res struct {
		who string
		err error
	}
	results := make(chan res, 3)
	inflight := 0
	go func() { results <- res{"parked:" + ls.Parked, lsRequest(ctx, ls.Parked, s, raw, cx, dx, d2)} }()
	inflight++
	select {
	case at := <-parked:
		logf("%s parked: %s", ls.Parked, at)
		ev["parked"]++
		ev["parked:"+ls.Parked+"@"+at[strings.Index(at, "["):]]++
	case r := <-results:
		// the request takes fewer locks than Pause+1: nothing to park
		logf("%s finished without reaching acquisition %d (err=%v)", ls.Parked, ls.Pause+1, r.err)
		inflight--
		ev["not_parked"]++
		close(release)
		return nil, ev, hist
	case <-gotime.After(20 * gotime.Second):
		return kit.Failf("HARNESS", "the parked request neither parked nor returned"), ev, hist
	}

	mu.Lock()
	phase = 1
	mu.Unlock()
	if ls.Second != "none" && ls.Second != ls.Parked && !(ls.Parked == "detach" && ls.Second == "sync") {
		second := ls.Second
		go func() { results <- res{"second:" + second, lsRequest(ctx, second, s, raw, cx, dx, d2)} }()
		inflight++
		// give it time to reach the lock it will block on (or to finish)
		deadline := gotime.After(300 * gotime.Millisecond)
	wait:
		for {
			select {
			case at := <-secondBlocked:
				logf("%s: %s", second, at)
			case <-deadline:
				break wait
			}
		}
		ev["second_started"]++
	}
	mu.Lock()
	phase = 2
	mu.Unlock()
	if ls.Writer != "none" {
		force := ls.Writer == "compactforce"
		go func() {
			di, err := documents.FindDocInfoByKey(ctx, s.BE, proj, dk)
			if err != nil {
				results <- res{"writer", nil}
				return
			}
			_, err = documents.CompactDocument(ctx, s.BE, proj, di, force)
			if err != nil && (strings.Contains(err.Error(), "attached") || strings.Contains(err.Error(), "mismatch")) {
				err = nil
			}
			results <- res{"writer:" + ls.Writer, err}
		}()
		inflight++
		select {
		case <-writerAtLock:
			// let it park inside the exclusive acquisition (a late arrival only makes the script weaker, never wrong)
			gotime.Sleep(60 * gotime.Millisecond)
			ev["writer_queued"]++
		case <-gotime.After(2 * gotime.Second):
		}
	}
	close(release)
	logf("parked request released")

	timeout := gotime.After(15 * gotime.Second)
	for inflight > 0 {
		select {
		case r := <-results:
			inflight--
			logf("%s returned: %v", r.who, r.err)
		case <-timeout:
			dump := goroutineDump()
			return kit.Failf("DEADLOCK", "%d of the requests (parked=%s second=%s writer=%s) did not return within 15 s after the parked request was released; locks held:\n%s\n%d goroutines parked in pkg/locker\n%s",
				inflight, ls.Parked, ls.Second, ls.Writer, world.Locks.HeldSummary(), strings.Count(dump, "pkg/locker"), abbreviate(dump, 5000)), ev, hist
		}
	}
	world.Locks.SetIntercept(nil)
	if v := world.Locks.Violations(); len(v) > 0 {
		return kit.Failf("LOCK-ORDER", "%d violations of the lock discipline, first: %s", len(v), v[0]), ev, hist
	}
	_ = cx.Deactivate(ctx)
	_ = cy.Deactivate(ctx)
	_ = cx.Close()
	_ = cy.Close()
	s.WaitIdle()
	return nil, ev, hist
}

func lsHash(ls LockScript) uint64 {
	b, _ := json.Marshal(ls)
	var h uint64 = 1469598103934665603
	for _, c := range b {
		h = (h ^ uint64(c)) * 1099511628211
	}
	return h
}

func TestC16LockScript(t *testing.T) {
	col := stats.New("C16", "lockscript")
	defer col.Flush(true)
	var failed *kit.Failure
	var failedCase LockScript
	var failedHist []string
	defer func() {
		if failed != nil {
			path := kit.WriteReplay("C16", "lockscript", fmt.Sprintf("lockscript-%016x", lsHash(failedCase)), failedCase, failed, failedHist)
			col.AddViolation(stats.Violation{Replay: path, Kind: failed.Kind, Msg: failed.Msg})
			kit.ReportViolation("C16", path, failed)
		}
	}()
	rapid.Check(t, func(rt *rapid.T) {
		ls := genLockScript().Draw(rt, "script")
		if failed != nil {
			// after a deadlock the server is wedged: stop at the first failure
			rt.Fatalf("%s", failed.Error())
		}
		kit.SetInflight(childEnv, "lockscript", "lockscript", fmt.Sprintf("lockscript-%016x", lsHash(ls)), ls)
		f, ev, hist := runLockScript(ls)
		classes := map[string]int{}
		for k, v := range ev {
			classes[k] = v
		}
		col.Record(lsHash(ls), f == nil && ev["parked"] > 0 && (ev["second_started"] > 0 || ev["writer_queued"] > 0), classes, func() any {
			return map[string]any{"script": ls, "history": hist}
		})
		if f != nil {
			if f.Kind == "HARNESS" {
				fmt.Printf("HARNESS-ERROR property=C16 %s\n", f.Msg)
				rt.Fatalf("harness: %s", f.Msg)
			}
			if failed == nil {
				failed, failedCase, failedHist = f, ls, hist
			}
			rt.Fatalf("%s", f.Error())
		}
	})
}

func replayLockScript(raw json.RawMessage) *kit.Failure {
	var ls LockScript
	if err := json.Unmarshal(raw, &ls); err != nil {
		return kit.Failf("HARNESS", "%v", err)
	}
	f, _, hist := runLockScript(ls)
	for _, h := range hist {
		fmt.Println("  " + h)
	}
	return f
}
