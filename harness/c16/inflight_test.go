package c16

import (
	"context"
	"encoding/json"
	"fmt"
	"math"
	"net/http"
	"strings"
	"sync"
	"testing"
	gotime "time"

	"connectrpc.com/connect"
	"google.golang.org/protobuf/proto"
	"pgregory.net/rapid"

	"github.com/yorkie-team/yorkie/api/converter"
	api "github.com/yorkie-team/yorkie/api/yorkie/v1"
	"github.com/yorkie-team/yorkie/api/yorkie/v1/v1connect"
	"github.com/yorkie-team/yorkie/client"
	"github.com/yorkie-team/yorkie/pkg/document"
	yjson "github.com/yorkie-team/yorkie/pkg/document/json"
	"github.com/yorkie-team/yorkie/pkg/document/presence"
	"github.com/yorkie-team/yorkie/pkg/document/time"
	"github.com/yorkie-team/yorkie/pkg/key"
	"github.com/yorkie-team/yorkie/server/documents"

	"verifharness/kit"
	"verifharness/stats"
	"verifharness/world"
)

// An InflightCase is a sequence of episodes in which ONE client has TWO
// requests on the same document in flight together - the original and its
// repetition (client-side timeout, reconnect, background sync overlapping a
// detach) - under a schedule the harness owns: the first request is parked at
// a drawn point inside the server (before one of its lock acquisitions - hook
// H3 - or before/after one of the storage calls of the sync path - DB
// decorator), the second is started and given time to reach the point where
// it has to wait (or to finish), then the first is let go.
//
// C05: every edit carried ends up in the document exactly once, a failed
// request can be retried, replicas converge. C04: the log stays gap-free
// without duplicates, the other client receives every change exactly once.
type InflightCase struct {
	Threshold int         `json:"threshold"` // 0: no snapshots; else snapshot interval/threshold of the project
	Episodes  []IFEpisode `json:"episodes"`
}

// IFEpisode is one overlapping pair.
type IFEpisode struct {
	Foreign int    `json:"foreign"` // changes the other client pushes before the episode
	Edits   int    `json:"edits"`   // new local changes of the client before the first request (0: nothing new to push)
	R1      string `json:"r1"`      // pushpull | pushonly
	R2      string `json:"r2"`      // pushpull | pushonly | detach
	Park    int    `json:"park"`    // where the first request is parked (parkNames)
	More    bool   `json:"more"`    // the second request carries one more change than the first
	Between bool   `json:"between"` // the other client pushes a change while the first request is parked (if the server lets it)
}

var parkNames = []string{
	"before-2nd-lock", "before-3rd-lock",
	"CreateChangeInfos/before", "CreateChangeInfos/after",
	"UpdateClientInfoAfterPushPull/before", "UpdateClientInfoAfterPushPull/after",
	"FindChangeInfosBetweenServerSeqs/before",
}

func genInflight() *rapid.Generator[InflightCase] {
	return rapid.Custom(func(t *rapid.T) InflightCase {
		c := InflightCase{}
		if rapid.IntRange(0, 3).Draw(t, "snap") == 0 {
			c.Threshold = rapid.IntRange(1, 3).Draw(t, "threshold")
		}
		n := rapid.IntRange(1, kit.Pick(4, 6)).Draw(t, "episodes")
		for i := 0; i < n; i++ {
			c.Episodes = append(c.Episodes, IFEpisode{
				Foreign: rapid.IntRange(0, 2).Draw(t, "foreign"),
				Edits:   rapid.IntRange(0, 2).Draw(t, "edits"),
				R1:      rapid.SampledFrom([]string{"pushpull", "pushpull", "pushpull", "pushonly"}).Draw(t, "r1"),
				R2:      rapid.SampledFrom([]string{"pushpull", "pushpull", "pushonly", "detach", "detach"}).Draw(t, "r2"),
				Park:    rapid.IntRange(0, len(parkNames)-1).Draw(t, "park"),
				More:    rapid.IntRange(0, 3).Draw(t, "more") == 0,
				Between: rapid.IntRange(0, 3).Draw(t, "between") == 0,
			})
		}
		return c
	})
}

type ifPeer struct {
	cli   v1connect.YorkieServiceClient
	cid   string
	actor time.ActorID
	d     *document.Document
	docID string
	k     key.Key
	incs  int // counter increases made by this peer (each change increases by 1)
}

func (p *ifPeer) attach(ctx context.Context) error {
	p.d = document.New(p.k)
	p.d.SetActor(p.actor)
	_ = p.d.Update(func(root *yjson.Object, pr *presence.Presence) error { pr.Initialize(nil); return nil })
	pk, _ := converter.ToChangePack(p.d.CreateChangePack())
	att, err := p.cli.AttachDocument(ctx, connect.NewRequest(&api.AttachDocumentRequest{ClientId: p.cid, ChangePack: pk}))
	if err != nil {
		return err
	}
	rp, err := converter.FromChangePack(att.Msg.ChangePack)
	if err != nil {
		return err
	}
	if err := p.d.ApplyChangePack(rp); err != nil {
		return err
	}
	p.d.SetStatus(document.StatusAttached)
	p.docID = att.Msg.DocumentId
	return nil
}

func (p *ifPeer) edit(tag string) error {
	p.incs++
	return p.d.Update(func(root *yjson.Object, _ *presence.Presence) error {
		if c := root.GetCounter("c"); c != nil {
			c.Increase(1)
		}
		root.SetInteger("x"+tag, p.incs)
		return nil
	})
}

type ifResp struct {
	pack *api.ChangePack
	err  error
}

func (p *ifPeer) send(ctx context.Context, kind string, pack *api.ChangePack) ifResp {
	switch kind {
	case "detach":
		r, err := p.cli.DetachDocument(ctx, connect.NewRequest(&api.DetachDocumentRequest{ClientId: p.cid, DocumentId: p.docID,
			ChangePack: proto.Clone(pack).(*api.ChangePack)}))
		if err != nil {
			return ifResp{nil, err}
		}
		return ifResp{r.Msg.ChangePack, nil}
	default:
		r, err := p.cli.PushPullChanges(ctx, connect.NewRequest(&api.PushPullChangesRequest{ClientId: p.cid, DocumentId: p.docID,
			ChangePack: proto.Clone(pack).(*api.ChangePack), PushOnly: kind == "pushonly"}))
		if err != nil {
			return ifResp{nil, err}
		}
		return ifResp{r.Msg.ChangePack, nil}
	}
}

func runInflight(c InflightCase) (fail *kit.Failure, ev map[string]int, hist []string) {
	ev = map[string]int{}
	logf := func(f string, a ...any) { hist = append(hist, fmt.Sprintf(f, a...)) }
	s := world.Get()
	ctx, cancelAll := context.WithTimeout(context.Background(), 90*gotime.Second)
	defer cancelAll()
	interval, threshold := int64(1000), int64(1000)
	if c.Threshold > 0 {
		interval, threshold = int64(c.Threshold), int64(c.Threshold)
	}
	proj := s.Project(interval, threshold, "c16if")
	dk := key.Key(world.FreshDocKey("c16if"))
	world.Locks.Install()
	world.Locks.Reset(0)
	defer world.Locks.SetIntercept(nil)
	defer s.DB.SetHook(nil)

	// B: a real client that creates the schema and observes
	cb, err := s.NewClient(ctx, proj)
	if err != nil {
		return kit.Failf("HARNESS", "client: %v", err), ev, hist
	}
	defer func() { _ = cb.Deactivate(ctx); _ = cb.Close() }()
	db := document.New(dk)
	if err := cb.Attach(ctx, db); err != nil {
		return kit.Failf("ATTACHFAIL", "setup: %v", err), ev, hist
	}
	if err := db.Update(func(root *yjson.Object, _ *presence.Presence) error {
		root.SetNewCounter("c", 0)
		return nil
	}); err != nil {
		return kit.Failf("HARNESS", "init: %v", err), ev, hist
	}
	if err := cb.Sync(ctx); err != nil {
		return kit.Failf("SYNCFAIL", "setup: %v", err), ev, hist
	}
	bIncs := 0
	bEdit := func() error {
		bIncs++
		return db.Update(func(root *yjson.Object, _ *presence.Presence) error {
			root.GetCounter("c").Increase(1)
			root.SetInteger(fmt.Sprintf("b%d", bIncs), bIncs)
			return nil
		})
	}

	// X: the raw peer whose requests overlap
	raw := v1connect.NewYorkieServiceClient(http.DefaultClient, "http://"+s.Addr,
		connect.WithInterceptors(client.NewAuthInterceptor(proj.PublicKey, "")))
	act, err := raw.ActivateClient(ctx, connect.NewRequest(&api.ActivateClientRequest{ClientKey: world.FreshDocKey("ifx")}))
	if err != nil {
		return kit.Failf("HARNESS", "activate: %v", err), ev, hist
	}
	x := &ifPeer{cli: raw, cid: act.Msg.ClientId, k: dk}
	x.actor, _ = time.ActorIDFromHex(x.cid)
	defer func() {
		_, _ = raw.DeactivateClient(ctx, connect.NewRequest(&api.DeactivateClientRequest{ClientId: x.cid, Synchronous: true}))
	}()
	if err := x.attach(ctx); err != nil {
		return kit.Failf("ATTACHFAIL", "x: %v", err), ev, hist
	}
	s.WaitIdle()

	apply := func(r ifResp) *kit.Failure {
		rp, err := converter.FromChangePack(r.pack)
		if err != nil {
			return kit.Failf("HARNESS", "decode response: %v", err)
		}
		if err := x.d.ApplyChangePack(rp); err != nil {
			return kit.Failf("APPLYFAIL", "x cannot apply the response: %v", err)
		}
		return nil
	}

	for ei, ep := range c.Episodes {
		for i := 0; i < ep.Foreign; i++ {
			if err := bEdit(); err != nil {
				return kit.Failf("EDITFAIL", "b: %v", err), ev, hist
			}
		}
		if ep.Foreign > 0 {
			if err := cb.Sync(ctx); err != nil {
				return kit.Failf("SYNCFAIL", "b (episode %d): %v", ei, err), ev, hist
			}
			s.WaitIdle()
		}
		for i := 0; i < ep.Edits; i++ {
			if err := x.edit(fmt.Sprintf("%d", ei)); err != nil {
				return kit.Failf("EDITFAIL", "x: %v", err), ev, hist
			}
		}
		pack1, _ := converter.ToChangePack(x.d.CreateChangePack())

		// arm the park point for the first request
		var mu sync.Mutex
		armed, parkedOnce := true, false
		parked := make(chan struct{}, 1)
		release := make(chan struct{})
		secondWaits := make(chan string, 16)
		park := func() {
			parked <- struct{}{}
			<-release
		}
		world.Locks.SetIntercept(func(class, lk string, held []string) {
			mu.Lock()
			isArmed := armed
			doPark := armed && !parkedOnce && ep.Park <= 1 && len(held) == ep.Park+1 && (class == "pull" || class == "push" || class == "attachment")
			if doPark {
				parkedOnce = true
			}
			mu.Unlock()
			if doPark {
				park()
				return
			}
			if !isArmed {
				select {
				case secondWaits <- fmt.Sprintf("holding [%s], taking %s", strings.Join(held, ","), class):
				default:
				}
			}
		})
		s.DB.SetHook(func(_ context.Context, method string, ph world.Phase, _ any) error {
			if ep.Park < 2 {
				return nil
			}
			name := method + "/" + map[world.Phase]string{world.Before: "before", world.After: "after"}[ph]
			mu.Lock()
			doPark := armed && !parkedOnce && name == parkNames[ep.Park]
			if doPark {
				parkedOnce = true
			}
			mu.Unlock()
			if doPark {
				park()
			}
			return nil
		})

		r1c, r2c := make(chan ifResp, 1), make(chan ifResp, 1)
		go func() { r1c <- x.send(ctx, ep.R1, pack1) }()
		var r1 ifResp
		r1done := false
		select {
		case <-parked:
			ev["parked"]++
			ev["parked@"+parkNames[ep.Park]]++
		case r1 = <-r1c:
			r1done = true
			ev["not_parked"]++
		case <-gotime.After(20 * gotime.Second):
			return kit.Failf("HARNESS", "episode %d: the first request neither parked nor returned", ei), ev, hist
		}
		mu.Lock()
		armed = false
		mu.Unlock()

		if ep.More {
			if err := x.edit(fmt.Sprintf("%dm", ei)); err != nil {
				return kit.Failf("EDITFAIL", "x: %v", err), ev, hist
			}
		}
		pack2, _ := converter.ToChangePack(x.d.CreateChangePack())
		go func() { r2c <- x.send(ctx, ep.R2, pack2) }()
		var r2 ifResp
		r2done := false
		var pendingB chan error
		if !r1done {
			select {
			case at := <-secondWaits:
				logf("episode %d: second request (%s) waits: %s", ei, ep.R2, at)
				gotime.Sleep(30 * gotime.Millisecond) // let it park inside the acquisition
				ev["second_waited_on_a_lock"]++
			case r2 = <-r2c:
				r2done = true
				ev["second_finished_while_first_parked"]++
			case <-gotime.After(400 * gotime.Millisecond):
				ev["second_neither_waited_nor_finished"]++
			}
			if ep.Between {
				// the other client pushes while both are in flight; if the server makes it wait, it simply queues
				_ = bEdit()
				bdone := make(chan error, 1)
				go func() { bdone <- cb.Sync(ctx) }()
				select {
				case err := <-bdone:
					if err != nil {
						close(release)
						return kit.Failf("SYNCFAIL", "b (while two requests of x were in flight): %v", err), ev, hist
					}
					ev["foreign_push_between"]++
				case <-gotime.After(150 * gotime.Millisecond):
					pendingB = bdone
					ev["foreign_push_queued"]++
				}
			}
			close(release)
		}
		deadline := gotime.After(30 * gotime.Second)
		for !r1done || !r2done {
			select {
			case r1 = <-r1c:
				r1done = true
			case r2 = <-r2c:
				r2done = true
			case <-deadline:
				return kit.Failf("DEADLOCK", "episode %d (%s parked at %s, then %s): a request did not return within 30 s; locks held:\n%s",
					ei, ep.R1, parkNames[ep.Park], ep.R2, world.Locks.HeldSummary()), ev, hist
			}
		}
		if pendingB != nil {
			select {
			case err := <-pendingB:
				if err != nil {
					return kit.Failf("SYNCFAIL", "b (queued behind two requests of x): %v", err), ev, hist
				}
			case <-gotime.After(30 * gotime.Second):
				return kit.Failf("DEADLOCK", "episode %d: the other client's sync did not return within 30 s; locks held:\n%s", ei, world.Locks.HeldSummary()), ev, hist
			}
		}
		world.Locks.SetIntercept(nil)
		s.DB.SetHook(nil)
		s.WaitIdle()
		logf("episode %d: %s (parked %s) -> %v ; %s (more=%v) -> %v", ei, ep.R1, parkNames[ep.Park], r1.err, ep.R2, ep.More, r2.err)

		// The client gave up on the first request and goes by the answer of the
		// second; if that one failed, by the first; if both failed it retries.
		switch {
		case r2.err == nil:
			if f := apply(r2); f != nil {
				return f, ev, hist
			}
			if ep.R2 == "detach" {
				ev["detached_in_flight"]++
				if err := x.attach(ctx); err != nil {
					return kit.Failf("ATTACHFAIL", "x cannot attach again after its detach (episode %d): %v", ei, err), ev, hist
				}
			}
		case r1.err == nil:
			ev["second_failed"]++
			if f := apply(r1); f != nil {
				return f, ev, hist
			}
		default:
			ev["both_failed"]++
			pk, _ := converter.ToChangePack(x.d.CreateChangePack())
			rr := x.send(ctx, "pushpull", pk)
			if rr.err != nil {
				return kit.Failf("RETRY-FAILED", "episode %d: both overlapping requests failed (%v / %v) and the sequential retry fails too: %v",
					ei, r1.err, r2.err, rr.err), ev, hist
			}
			if f := apply(rr); f != nil {
				return f, ev, hist
			}
		}
	}

	// quiesce: x, b, b, x
	final := func() *kit.Failure {
		pk, _ := converter.ToChangePack(x.d.CreateChangePack())
		rr := x.send(ctx, "pushpull", pk)
		if rr.err != nil {
			return kit.Failf("FINALSYNCFAIL", "x: %v", rr.err)
		}
		return apply(rr)
	}
	for round := 0; round < 2; round++ {
		if f := final(); f != nil {
			return f, ev, hist
		}
		if err := cb.Sync(ctx); err != nil {
			return kit.Failf("FINALSYNCFAIL", "b: %v", err), ev, hist
		}
		s.WaitIdle()
	}
	if f := final(); f != nil {
		return f, ev, hist
	}

	// oracles
	di, err := documents.FindDocInfoByKey(ctx, s.BE, proj, dk)
	if err != nil {
		return kit.Failf("HARNESS", "docinfo: %v", err), ev, hist
	}
	infos, err := s.DB.Database.FindChangeInfosBetweenServerSeqs(ctx, di.RefKey(), 1, math.MaxInt64)
	if err != nil {
		return kit.Failf("HARNESS", "log: %v", err), ev, hist
	}
	seen := map[string]int64{}
	for i, ci := range infos {
		if ci.ServerSeq != int64(i+1) {
			return kit.Failf("LOG-GAP", "row %d has serverSeq %d", i, ci.ServerSeq), ev, hist
		}
		if len(ci.Operations) == 0 {
			continue
		}
		// (actor, lamport) identifies a change across re-attachments (clientSeq restarts)
		k := fmt.Sprintf("%s/%d", ci.ActorID.String(), ci.Lamport)
		if prev, dup := seen[k]; dup {
			return kit.Failf("LOG-DUPLICATE", "the change of actor %s with lamport %d (clientSeq %d) is stored twice: serverSeq %d and %d",
				ci.ActorID.String(), ci.Lamport, ci.ClientSeq, prev, ci.ServerSeq), ev, hist
		}
		seen[k] = ci.ServerSeq
	}
	want := x.incs + bIncs
	got := func(d *document.Document) int {
		v := -1
		if c := d.Root().GetCounter("c"); c != nil {
			switch n := c.Value().(type) {
			case int32:
				v = int(n)
			case int64:
				v = int(n)
			}
		}
		return v
	}
	if g := got(db); g != want {
		return kit.Failf("COUNTER-MISMATCH", "the observer's counter is %d after %d increases (x %d, b %d): an edit was applied twice or lost\n%s",
			g, want, x.incs, bIncs, db.Marshal()), ev, hist
	}
	if g := got(x.d); g != want {
		return kit.Failf("COUNTER-MISMATCH", "x's counter is %d after %d increases (x %d, b %d)\n%s", g, want, x.incs, bIncs, x.d.Marshal()), ev, hist
	}
	if a, b := x.d.Marshal(), db.Marshal(); a != b {
		return kit.Failf("DIVERGED", "x vs b:\n%s\n%s", a, b), ev, hist
	}
	if v := world.Locks.Violations(); len(v) > 0 {
		return kit.Failf("LOCK-ORDER", "%d violations of the lock discipline, first: %s", len(v), v[0]), ev, hist
	}
	return nil, ev, hist
}

func ifHash(c InflightCase) uint64 {
	b, _ := json.Marshal(c)
	var h uint64 = 1469598103934665603
	for _, x := range b {
		h = (h ^ uint64(x)) * 1099511628211
	}
	return h
}

func runInflightCases(t *testing.T, prop string) {
	col := stats.New(prop, "inflight")
	defer col.Flush(true)
	var failed *kit.Failure
	var failedCase InflightCase
	var failedHist []string
	defer func() {
		if failed == nil {
			return
		}
		if failed.Kind == "DEADLOCK" || failed.Kind == "LOCK-ORDER" {
			if prop != "C16" {
				fmt.Printf("HARNESS-ERROR property=%s the case failed with %s, which is judged by the C16 check: %s\n", prop, failed.Kind, abbreviate(failed.Msg, 300))
				return
			}
		}
		path := kit.WriteReplay(prop, "inflight", fmt.Sprintf("inflight-%016x", ifHash(failedCase)), failedCase, failed, failedHist)
		col.AddViolation(stats.Violation{Replay: path, Kind: failed.Kind, Msg: failed.Msg})
		kit.ReportViolation(prop, path, failed)
	}()
	rapid.Check(t, func(rt *rapid.T) {
		c := genInflight().Draw(rt, "case")
		if failed != nil && (failed.Kind == "DEADLOCK") {
			rt.Fatalf("%s", failed.Error())
		}
		kit.SetInflight(childEnv, "inflight", "inflight", fmt.Sprintf("inflight-%016x", ifHash(c)), c)
		f, ev, hist := runInflight(c)
		classes := map[string]int{}
		for k, v := range ev {
			classes[k] = v
		}
		col.Record(ifHash(c), f == nil && ev["parked"] > 0 && ev["second_waited_on_a_lock"] > 0, classes, func() any {
			return map[string]any{"case": c, "history": hist}
		})
		if f != nil {
			if f.Kind == "HARNESS" {
				fmt.Printf("HARNESS-ERROR property=%s %s\n", prop, f.Msg)
				rt.Fatalf("harness: %s", f.Msg)
			}
			if failed == nil || len(c.Episodes) < len(failedCase.Episodes) {
				failed, failedCase, failedHist = f, c, hist
			}
			rt.Fatalf("%s", f.Error())
		}
	})
}

// TestC05Inflight / TestC04Inflight: the same owned schedules, reported under either property.
func TestC05Inflight(t *testing.T) { runInflightCases(t, "C05") }
func TestC04Inflight(t *testing.T) { runInflightCases(t, "C04") }

func replayInflight(raw json.RawMessage) *kit.Failure {
	var c InflightCase
	if err := json.Unmarshal(raw, &c); err != nil {
		return kit.Failf("HARNESS", "%v", err)
	}
	f, _, hist := runInflight(c)
	for _, h := range hist {
		fmt.Println("  " + h)
	}
	return f
}
