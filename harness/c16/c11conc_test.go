package c16

import (
	"context"
	"encoding/json"
	"fmt"
	"math"
	"net/http"
	"sync"
	"testing"

	"connectrpc.com/connect"
	"google.golang.org/protobuf/proto"
	"pgregory.net/rapid"

	"github.com/yorkie-team/yorkie/api/converter"
	"github.com/yorkie-team/yorkie/api/types"
	api "github.com/yorkie-team/yorkie/api/yorkie/v1"
	"github.com/yorkie-team/yorkie/api/yorkie/v1/v1connect"
	"github.com/yorkie-team/yorkie/client"
	"github.com/yorkie-team/yorkie/pkg/document"
	yjson "github.com/yorkie-team/yorkie/pkg/document/json"
	"github.com/yorkie-team/yorkie/pkg/document/presence"
	"github.com/yorkie-team/yorkie/pkg/document/time"
	"github.com/yorkie-team/yorkie/pkg/key"
	"github.com/yorkie-team/yorkie/server/backend/database"
	"github.com/yorkie-team/yorkie/server/documents"

	"verifharness/kit"
	"verifharness/stats"
	"verifharness/world"
)

// C11, concurrent part: the lifecycle rules also hold when a client's
// lifecycle call (Detach, Deactivate, Remove) is in flight together with a
// PushPull of the same client for the same document (a background sync loop
// racing with Detach, a resent request). Whatever order the server chooses,
// the outcome must be one the sequential state machine allows: the lifecycle
// call succeeds and takes effect exactly once, the PushPull is either ordered
// before it (accepted) or after it (refused), every change is stored at most
// once, the client ends up detached (no version-vector row: the remaining
// client can collect its garbage) and cannot write afterwards.

// LifeCase is one generated case: per raw peer a list of rounds.
type LifeCase struct {
	Peers [][]LifeRound `json:"peers"`
}

// LifeRound is attach, Edits synced edits, then End racing with Extra PushPulls.
type LifeRound struct {
	Edits int    `json:"edits"`
	End   string `json:"end"`   // detach | deactivate | remove
	Extra int    `json:"extra"` // number of PushPull requests in flight together with End (1..3)
	Lead  int    `json:"lead"`  // 0: all sent together; 1: End is sent first; 2: a PushPull is sent first
}

func genLifeCase() *rapid.Generator[LifeCase] {
	return rapid.Custom(func(t *rapid.T) LifeCase {
		var c LifeCase
		n := rapid.IntRange(1, 3).Draw(t, "peers")
		for i := 0; i < n; i++ {
			var rs []LifeRound
			m := rapid.IntRange(1, 4).Draw(t, "rounds")
			for j := 0; j < m; j++ {
				end := rapid.SampledFrom([]string{"detach", "detach", "detach", "deactivate", "deactivate"}).Draw(t, "end")
				rs = append(rs, LifeRound{
					Edits: rapid.IntRange(0, 3).Draw(t, "edits"),
					End:   end,
					Extra: rapid.IntRange(1, 3).Draw(t, "extra"),
					Lead:  rapid.IntRange(0, 2).Draw(t, "lead"),
				})
			}
			c.Peers = append(c.Peers, rs)
		}
		return c
	})
}

type lifeRun struct {
	s    *world.Server
	proj *types.Project
	k    key.Key
	mu   sync.Mutex
	ev   map[string]int
	log  []string
}

func (r *lifeRun) logf(f string, a ...any) {
	r.mu.Lock()
	r.log = append(r.log, fmt.Sprintf(f, a...))
	r.mu.Unlock()
}

func (r *lifeRun) count(k string) {
	r.mu.Lock()
	r.ev[k]++
	r.mu.Unlock()
}

// opRows counts the stored rows with operations of one actor after serverSeq
// `after` (per client sequence), and returns the actor's highest serverSeq.
func (r *lifeRun) opRows(docID, actor string, after int64) (int, map[uint32]int, int64) {
	infos, err := r.s.DB.Database.FindChangeInfosBetweenServerSeqs(context.Background(),
		types.DocRefKey{ProjectID: r.proj.ID, DocID: types.ID(docID)}, 1, math.MaxInt64)
	if err != nil {
		return -1, nil, 0
	}
	n := 0
	seqs := map[uint32]int{}
	last := int64(0)
	for _, ci := range infos {
		if ci.ActorID.String() != actor {
			continue
		}
		last = ci.ServerSeq
		if len(ci.Operations) > 0 && ci.ServerSeq > after {
			n++
			seqs[ci.ClientSeq]++
		}
	}
	return n, seqs, last
}

func (r *lifeRun) peerScript(idx int, rounds []LifeRound) *kit.Failure {
	ctx := context.Background()
	cli := v1connect.NewYorkieServiceClient(http.DefaultClient, "http://"+r.s.Addr,
		connect.WithInterceptors(client.NewAuthInterceptor(r.proj.PublicKey, "")))
	cid := ""
	defer func() {
		if cid != "" {
			_, _ = cli.DeactivateClient(ctx, connect.NewRequest(&api.DeactivateClientRequest{ClientId: cid, Synchronous: true}))
		}
	}()
	for ri, rd := range rounds {
		if cid == "" {
			act, err := cli.ActivateClient(ctx, connect.NewRequest(&api.ActivateClientRequest{ClientKey: world.FreshDocKey("life")}))
			if err != nil {
				return kit.Failf("HARNESS", "activate: %v", err)
			}
			cid = act.Msg.ClientId
		}
		actor, _ := time.ActorIDFromHex(cid)
		d := document.New(r.k)
		d.SetActor(actor)
		_ = d.Update(func(root *yjson.Object, p *presence.Presence) error { p.Initialize(nil); return nil })
		pk, _ := converter.ToChangePack(d.CreateChangePack())
		att, err := cli.AttachDocument(ctx, connect.NewRequest(&api.AttachDocumentRequest{ClientId: cid, ChangePack: pk}))
		if err != nil {
			return kit.Failf("ATTACH-REJECTED", "p%d round %d: attach by an activated client failed: %v", idx, ri, err)
		}
		rp, _ := converter.FromChangePack(att.Msg.ChangePack)
		if rp.IsRemoved {
			return nil // somebody removed the document: the script ends
		}
		if err := d.ApplyChangePack(rp); err != nil {
			return kit.Failf("HARNESS", "attach response: %v", err)
		}
		d.SetStatus(document.StatusAttached)
		docID := att.Msg.DocumentId
		// rows of this attachment: those after the attach request's own row
		// (a new Document instance restarts the client sequence at 1)
		_, _, base := r.opRows(docID, cid, 0)
		made := 0
		edit := func() {
			made++
			_ = d.Update(func(root *yjson.Object, p *presence.Presence) error {
				root.SetInteger(fmt.Sprintf("p%d", idx), made)
				if made%2 == 0 {
					root.Delete(fmt.Sprintf("p%d", idx))
				}
				return nil
			})
		}
		for e := 0; e < rd.Edits; e++ {
			edit()
			pack, _ := converter.ToChangePack(d.CreateChangePack())
			res, err := cli.PushPullChanges(ctx, connect.NewRequest(&api.PushPullChangesRequest{ClientId: cid, DocumentId: docID, ChangePack: pack}))
			if err != nil {
				return kit.Failf("VALID-CALL-REJECTED", "p%d round %d: PushPull of an attached client failed: %v", idx, ri, err)
			}
			rp, _ := converter.FromChangePack(res.Msg.ChangePack)
			if rp.IsRemoved {
				return nil
			}
			if err := d.ApplyChangePack(rp); err != nil {
				return kit.Failf("HARNESS", "pushpull response: %v", err)
			}
		}
		// the racing group: one more edit, carried by every request of the group
		edit()
		pack, _ := converter.ToChangePack(d.CreateChangePack())
		var wg sync.WaitGroup
		var endErr error
		ppErrs := make([]error, rd.Extra)
		sendEnd := func() {
			defer wg.Done()
			switch rd.End {
			case "detach":
				_, endErr = cli.DetachDocument(ctx, connect.NewRequest(&api.DetachDocumentRequest{ClientId: cid, DocumentId: docID,
					ChangePack: proto.Clone(pack).(*api.ChangePack)}))
			case "deactivate":
				_, endErr = cli.DeactivateClient(ctx, connect.NewRequest(&api.DeactivateClientRequest{ClientId: cid, Synchronous: true}))
			}
		}
		sendPP := func(i int) {
			defer wg.Done()
			_, ppErrs[i] = cli.PushPullChanges(ctx, connect.NewRequest(&api.PushPullChangesRequest{ClientId: cid, DocumentId: docID,
				ChangePack: proto.Clone(pack).(*api.ChangePack)}))
		}
		wg.Add(1 + rd.Extra)
		switch rd.Lead {
		case 1:
			go sendEnd()
			for i := 0; i < rd.Extra; i++ {
				go sendPP(i)
			}
		case 2:
			go sendPP(0)
			go sendEnd()
			for i := 1; i < rd.Extra; i++ {
				go sendPP(i)
			}
		default:
			for i := 0; i < rd.Extra; i++ {
				go sendPP(i)
			}
			go sendEnd()
		}
		wg.Wait()
		r.count("race:" + rd.End)
		accepted := 0
		for _, e := range ppErrs {
			if e == nil {
				accepted++
			}
		}
		r.logf("p%d round %d: %s -> %v; %d/%d concurrent PushPulls accepted", idx, ri, rd.End, endErr, accepted, rd.Extra)
		if accepted > 0 && accepted < rd.Extra {
			r.count("pushpull_split_around_" + rd.End)
		}
		if endErr != nil {
			return kit.Failf("VALID-CALL-REJECTED", "p%d round %d: %s of an attached client failed while PushPulls of the same client were in flight: %v", idx, ri, rd.End, endErr)
		}
		// effects: exactly the state the sequential machine ends in
		info, err := r.s.BE.DB.FindClientInfoByRefKey(ctx, types.ClientRefKey{ProjectID: r.proj.ID, ClientID: types.ID(cid)}, true)
		if err != nil {
			return kit.Failf("HARNESS", "client info: %v", err)
		}
		if cd := info.Documents[types.ID(docID)]; cd == nil || cd.Status != database.DocumentDetached {
			st := "<none>"
			if cd != nil {
				st = cd.Status
			}
			return kit.Failf("STATUS-MISMATCH", "p%d round %d: after %s returned (with %d PushPulls of the same client in flight, %d accepted) the server records the document as %q for the client, want detached",
				idx, ri, rd.End, rd.Extra, accepted, st)
		}
		if rd.End == "deactivate" && info.Status != database.ClientDeactivated {
			return kit.Failf("STATUS-MISMATCH", "p%d round %d: client status %q after Deactivate returned", idx, ri, info.Status)
		}
		// a later write is refused and stores nothing
		rowsA, seqs, _ := r.opRows(docID, cid, base)
		for cs, n := range seqs {
			if n > 1 {
				return kit.Failf("CHANGE-STORED-TWICE", "p%d round %d: the change with clientSeq %d of the client is stored %d times", idx, ri, cs, n)
			}
		}
		if rd.End == "detach" && rowsA != made {
			return kit.Failf("ACCEPTED-CHANGE-NOT-STORED", "p%d round %d: the client made %d changes with operations in this attachment, all carried by the accepted Detach; stored: %d", idx, ri, made, rowsA)
		}
		edit()
		late, _ := converter.ToChangePack(d.CreateChangePack())
		_, err = cli.PushPullChanges(ctx, connect.NewRequest(&api.PushPullChangesRequest{ClientId: cid, DocumentId: docID, ChangePack: late}))
		if err == nil {
			return kit.Failf("INVALID-CALL-ACCEPTED", "p%d round %d: PushPull after the client's %s was accepted", idx, ri, rd.End)
		}
		if rowsB, _, _ := r.opRows(docID, cid, base); rowsB != rowsA {
			return kit.Failf("REJECTED-CALL-STORED-CHANGES", "p%d round %d: the refused PushPull after %s stored rows (%d -> %d)", idx, ri, rd.End, rowsA, rowsB)
		}
		if rd.End == "deactivate" {
			cid = ""
		}
	}
	return nil
}

func executeLife(c LifeCase) (fail *kit.Failure, ev map[string]int, hist []string) {
	s := world.Get()
	r := &lifeRun{s: s, proj: s.Project(1000, 1000, "c11conc"), k: key.Key(world.FreshDocKey("c11c")), ev: map[string]int{}}
	ctx := context.Background()
	defer func() { ev, hist = r.ev, r.log }()
	wit, err := s.NewClient(ctx, r.proj)
	if err != nil {
		return kit.Failf("HARNESS", "client: %v", err), nil, nil
	}
	defer func() { _ = wit.Deactivate(ctx); _ = wit.Close() }()
	wd := document.New(r.k)
	if err := wit.Attach(ctx, wd); err != nil {
		return kit.Failf("HARNESS", "attach: %v", err), nil, nil
	}
	var wg sync.WaitGroup
	fails := make(chan *kit.Failure, len(c.Peers))
	for i, rounds := range c.Peers {
		wg.Add(1)
		go func() {
			defer wg.Done()
			if f := r.peerScript(i, rounds); f != nil {
				fails <- f
			}
		}()
	}
	wg.Wait()
	close(fails)
	for f := range fails {
		return f, nil, nil
	}
	s.WaitIdle()
	// every raw peer is detached now: the witness is the only attached client
	// and must be able to collect garbage it creates from here on
	if err := wit.Sync(ctx); err != nil {
		return kit.Failf("PROBE-SYNC-FAILED", "witness: %v", err), nil, nil
	}
	g0 := wd.GarbageLen()
	_ = wd.Update(func(root *yjson.Object, p *presence.Presence) error { root.SetInteger("g", 1); return nil })
	_ = wd.Update(func(root *yjson.Object, p *presence.Presence) error { root.Delete("g"); return nil })
	for i := 0; i < 3; i++ {
		if err := wit.Sync(ctx); err != nil {
			return kit.Failf("PROBE-SYNC-FAILED", "witness: %v", err), nil, nil
		}
		s.WaitIdle()
	}
	if g := wd.GarbageLen(); g > g0 {
		return kit.Failf("GC-HELD-BACK", "the only client still attached cannot collect the tombstone it just created (garbage %d -> %d after 3 syncs): a detached/deactivated client still holds back the minimum version vector", g0, g), nil, nil
	}
	r.ev["gc_probe"]++
	if di, err := documents.FindDocInfoByKey(ctx, s.BE, r.proj, r.k); err == nil {
		if n, err := documents.FindAttachedClientCount(ctx, s.BE, di.RefKey()); err == nil && n != 1 {
			return kit.Failf("STATUS-MISMATCH", "%d clients are recorded as attached at the end, only the witness is", n), nil, nil
		}
	}
	return nil, nil, nil
}

func lifeHash(c LifeCase) uint64 {
	b, _ := json.Marshal(c)
	h := uint64(1469598103934665603)
	for _, x := range b {
		h = (h ^ uint64(x)) * 1099511628211
	}
	return h
}

func TestC11Conc(t *testing.T) {
	col := stats.New("C11", "conc")
	defer col.Flush(true)
	var failed *kit.Failure
	rapid.Check(t, func(rt *rapid.T) {
		c := genLifeCase().Draw(rt, "case")
		if failed != nil {
			rt.Fatalf("%s", failed.Error())
		}
		kit.SetInflight(childEnv, "conc", "lifecase", fmt.Sprintf("life-%016x", lifeHash(c)), c)
		fail, ev, hist := executeLife(c)
		col.Record(lifeHash(c), fail == nil && ev["race:detach"]+ev["race:deactivate"] > 0, ev, func() any {
			b, _ := json.Marshal(c)
			return map[string]any{"case": string(b), "history": hist}
		})
		if fail != nil {
			if fail.Kind == "HARNESS" {
				fmt.Printf("HARNESS-ERROR property=C11 %s\n", fail.Msg)
				rt.Fatalf("harness: %s", fail.Msg)
			}
			failed = fail
			path := kit.WriteReplay("C11", "lifecase", fmt.Sprintf("life-%016x", lifeHash(c)), c, fail, hist)
			col.AddViolation(stats.Violation{Replay: path, Kind: fail.Kind, Msg: fail.Msg})
			kit.ReportViolation("C11", path, fail)
			rt.Fatalf("%s", fail.Error())
		}
	})
}

func replayLife(raw json.RawMessage) *kit.Failure {
	var c LifeCase
	if err := json.Unmarshal(raw, &c); err != nil {
		return kit.Failf("HARNESS", "%v", err)
	}
	for i := 0; i < 30; i++ {
		if f, _, _ := executeLife(c); f != nil {
			return f
		}
	}
	return nil
}
