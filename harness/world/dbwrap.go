package world

import (
	"context"
	"sync"

	"github.com/yorkie-team/yorkie/api/types"
	"github.com/yorkie-team/yorkie/pkg/document"
	"github.com/yorkie-team/yorkie/pkg/document/change"
	"github.com/yorkie-team/yorkie/pkg/document/time"
	"github.com/yorkie-team/yorkie/server/backend/database"
)

// Phase tells a DB hook whether the wrapped call is about to run or has run.
type Phase int

const (
	// Before the wrapped call: a returned error replaces the call.
	Before Phase = iota
	// After the wrapped call took effect: a returned error replaces its result.
	After
)

// DBHook observes or perturbs a storage call. args depends on the method.
type DBHook func(ctx context.Context, method string, ph Phase, args any) error

// DBWrap decorates the server's database (backend.Backend.DB is an exported
// interface field) to observe and fault the storage calls of the sync path.
type DBWrap struct {
	database.Database
	mu   sync.RWMutex
	hook DBHook
}

// SetHook installs the hook (nil = transparent).
func (w *DBWrap) SetHook(h DBHook) {
	w.mu.Lock()
	defer w.mu.Unlock()
	w.hook = h
}

func (w *DBWrap) h() DBHook {
	w.mu.RLock()
	defer w.mu.RUnlock()
	return w.hook
}

// CreateChangeInfosArgs is passed to hooks of CreateChangeInfos.
type CreateChangeInfosArgs struct {
	Doc       types.DocRefKey
	CP        change.Checkpoint
	Changes   []*database.ChangeInfo
	IsRemoved bool
	ResDoc    *database.DocInfo
	ResCP     change.Checkpoint
}

// CreateChangeInfos wraps the log append.
func (w *DBWrap) CreateChangeInfos(
	ctx context.Context, docRefKey types.DocRefKey, cp change.Checkpoint,
	changes []*database.ChangeInfo, isRemoved bool,
) (*database.DocInfo, change.Checkpoint, error) {
	h := w.h()
	args := &CreateChangeInfosArgs{Doc: docRefKey, CP: cp, Changes: changes, IsRemoved: isRemoved}
	if h != nil {
		if err := h(ctx, "CreateChangeInfos", Before, args); err != nil {
			return nil, change.InitialCheckpoint, err
		}
	}
	d, c, err := w.Database.CreateChangeInfos(ctx, docRefKey, cp, changes, isRemoved)
	if h != nil && err == nil {
		args.ResDoc, args.ResCP = d, c
		if herr := h(ctx, "CreateChangeInfos", After, args); herr != nil {
			return nil, change.InitialCheckpoint, herr
		}
	}
	return d, c, err
}

// UpdateClientInfoAfterPushPull wraps the checkpoint/status update.
func (w *DBWrap) UpdateClientInfoAfterPushPull(
	ctx context.Context, clientInfo *database.ClientInfo, docInfo *database.DocInfo,
) error {
	h := w.h()
	if h != nil {
		if err := h(ctx, "UpdateClientInfoAfterPushPull", Before, clientInfo); err != nil {
			return err
		}
	}
	err := w.Database.UpdateClientInfoAfterPushPull(ctx, clientInfo, docInfo)
	if h != nil && err == nil {
		if herr := h(ctx, "UpdateClientInfoAfterPushPull", After, clientInfo); herr != nil {
			return herr
		}
	}
	return err
}

// MinVVArgs is passed to hooks of UpdateMinVersionVector/GetMinVersionVector.
type MinVVArgs struct {
	Client *database.ClientInfo
	Doc    types.DocRefKey
	Vector time.VersionVector
	Res    time.VersionVector
}

// UpdateMinVersionVector wraps the version-vector table update.
func (w *DBWrap) UpdateMinVersionVector(
	ctx context.Context, clientInfo *database.ClientInfo, docRefKey types.DocRefKey, vector time.VersionVector,
) (time.VersionVector, error) {
	h := w.h()
	args := &MinVVArgs{Client: clientInfo, Doc: docRefKey, Vector: vector}
	if h != nil {
		if err := h(ctx, "UpdateMinVersionVector", Before, args); err != nil {
			return nil, err
		}
	}
	v, err := w.Database.UpdateMinVersionVector(ctx, clientInfo, docRefKey, vector)
	if h != nil && err == nil {
		args.Res = v
		if herr := h(ctx, "UpdateMinVersionVector", After, args); herr != nil {
			return nil, herr
		}
	}
	return v, err
}

// GetMinVersionVector wraps the read of the minimum vector.
func (w *DBWrap) GetMinVersionVector(
	ctx context.Context, docRefKey types.DocRefKey, vector time.VersionVector,
) (time.VersionVector, error) {
	h := w.h()
	args := &MinVVArgs{Doc: docRefKey, Vector: vector}
	if h != nil {
		if err := h(ctx, "GetMinVersionVector", Before, args); err != nil {
			return nil, err
		}
	}
	v, err := w.Database.GetMinVersionVector(ctx, docRefKey, vector)
	if h != nil && err == nil {
		args.Res = v
		if herr := h(ctx, "GetMinVersionVector", After, args); herr != nil {
			return nil, herr
		}
	}
	return v, err
}

// RangeArgs is passed to hooks of the range reads.
type RangeArgs struct {
	Doc      types.DocRefKey
	From, To int64
	N        int
}

// FindChangeInfosBetweenServerSeqs wraps the pull range read.
func (w *DBWrap) FindChangeInfosBetweenServerSeqs(
	ctx context.Context, docRefKey types.DocRefKey, from int64, to int64,
) ([]*database.ChangeInfo, error) {
	h := w.h()
	args := &RangeArgs{Doc: docRefKey, From: from, To: to}
	if h != nil {
		if err := h(ctx, "FindChangeInfosBetweenServerSeqs", Before, args); err != nil {
			return nil, err
		}
	}
	r, err := w.Database.FindChangeInfosBetweenServerSeqs(ctx, docRefKey, from, to)
	if h != nil && err == nil {
		args.N = len(r)
		if herr := h(ctx, "FindChangeInfosBetweenServerSeqs", After, args); herr != nil {
			return nil, herr
		}
	}
	return r, err
}

// FindChangesBetweenServerSeqs wraps the rebuild range read.
func (w *DBWrap) FindChangesBetweenServerSeqs(
	ctx context.Context, docRefKey types.DocRefKey, from int64, to int64,
) ([]*change.Change, error) {
	h := w.h()
	args := &RangeArgs{Doc: docRefKey, From: from, To: to}
	if h != nil {
		if err := h(ctx, "FindChangesBetweenServerSeqs", Before, args); err != nil {
			return nil, err
		}
	}
	r, err := w.Database.FindChangesBetweenServerSeqs(ctx, docRefKey, from, to)
	if h != nil && err == nil {
		args.N = len(r)
		if herr := h(ctx, "FindChangesBetweenServerSeqs", After, args); herr != nil {
			return nil, herr
		}
	}
	return r, err
}

// SnapshotArgs is passed to hooks of the snapshot calls.
type SnapshotArgs struct {
	Doc       types.DocRefKey
	ServerSeq int64
	Res       *database.SnapshotInfo
	Stored    *document.InternalDocument
}

// FindClosestSnapshotInfo wraps the snapshot lookup.
func (w *DBWrap) FindClosestSnapshotInfo(
	ctx context.Context, docRefKey types.DocRefKey, serverSeq int64, includeSnapshot bool,
) (*database.SnapshotInfo, error) {
	h := w.h()
	args := &SnapshotArgs{Doc: docRefKey, ServerSeq: serverSeq}
	if h != nil {
		if err := h(ctx, "FindClosestSnapshotInfo", Before, args); err != nil {
			return nil, err
		}
	}
	r, err := w.Database.FindClosestSnapshotInfo(ctx, docRefKey, serverSeq, includeSnapshot)
	if h != nil && err == nil {
		args.Res = r
		if herr := h(ctx, "FindClosestSnapshotInfo", After, args); herr != nil {
			return nil, herr
		}
	}
	return r, err
}

// CreateSnapshotInfo wraps the snapshot store.
func (w *DBWrap) CreateSnapshotInfo(
	ctx context.Context, docRefKey types.DocRefKey, doc *document.InternalDocument,
) error {
	h := w.h()
	args := &SnapshotArgs{Doc: docRefKey, Stored: doc, ServerSeq: doc.Checkpoint().ServerSeq}
	if h != nil {
		if err := h(ctx, "CreateSnapshotInfo", Before, args); err != nil {
			return err
		}
	}
	err := w.Database.CreateSnapshotInfo(ctx, docRefKey, doc)
	if h != nil && err == nil {
		if herr := h(ctx, "CreateSnapshotInfo", After, args); herr != nil {
			return herr
		}
	}
	return err
}

// FindClientInfoByRefKey wraps the client lookup of every data RPC.
func (w *DBWrap) FindClientInfoByRefKey(
	ctx context.Context, refKey types.ClientRefKey, skipCache ...bool,
) (*database.ClientInfo, error) {
	h := w.h()
	if h != nil {
		if err := h(ctx, "FindClientInfoByRefKey", Before, refKey); err != nil {
			return nil, err
		}
	}
	r, err := w.Database.FindClientInfoByRefKey(ctx, refKey, skipCache...)
	if h != nil && err == nil {
		if herr := h(ctx, "FindClientInfoByRefKey", After, refKey); herr != nil {
			return nil, herr
		}
	}
	return r, err
}

// FindDocInfoByRefKey wraps the document lookup.
func (w *DBWrap) FindDocInfoByRefKey(ctx context.Context, refKey types.DocRefKey) (*database.DocInfo, error) {
	h := w.h()
	if h != nil {
		if err := h(ctx, "FindDocInfoByRefKey", Before, refKey); err != nil {
			return nil, err
		}
	}
	r, err := w.Database.FindDocInfoByRefKey(ctx, refKey)
	if h != nil && err == nil {
		if herr := h(ctx, "FindDocInfoByRefKey", After, refKey); herr != nil {
			return nil, herr
		}
	}
	return r, err
}
