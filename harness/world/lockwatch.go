package world

import (
	"fmt"
	"runtime"
	"strings"
	"sync"
	"sync/atomic"
	gotime "time"

	besync "github.com/yorkie-team/yorkie/server/backend/sync"
)

// LockWatch observes every named-lock acquisition and release of the server
// (hook H3, build tag verif) on the goroutine that performs it. It checks the
// documented acquisition order doc -> pull -> attachment -> push per goroutine,
// flags a goroutine that takes a key it already holds (a recursive read lock
// deadlocks as soon as a writer queues between the two acquisitions), and can
// inject yields at the lock boundaries (H2) so that requests interleave inside
// their critical phases.
type LockWatch struct {
	mu         sync.Mutex
	held       map[uint64][]heldLock
	violations []string
	classes    map[string]int
	maxDepth   int

	// intercept, when set, is called (outside the watcher's mutex) on the
	// acquiring goroutine right before it blocks in an acquisition, with the
	// classes of the locks that goroutine already holds. Scripts use it to
	// park a request between two acquisitions.
	intercept atomic.Pointer[func(class, key string, held []string)]

	events  atomic.Int64
	yields  atomic.Int64
	counter atomic.Uint64
	seed    atomic.Uint64 // 0 = no yield injection
}

type heldLock struct {
	key   string
	class string
	rank  int
	read  bool
}

// LockClass maps a lock key to its class and its rank in the documented order
// (-1: not part of the order).
func LockClass(key string) (string, int) {
	switch {
	case strings.HasPrefix(key, "doc-push-"):
		return "push", 3
	case strings.HasPrefix(key, "doc-pull-"):
		return "pull", 1
	case strings.HasPrefix(key, "doc-attachment-"):
		return "attachment", 2
	case strings.HasPrefix(key, "doc-watchstream-"):
		return "watchstream", -1
	case strings.HasPrefix(key, "doc-"):
		return "doc", 0
	case strings.HasPrefix(key, "snapshot-"):
		return "snapshot", -1
	}
	return "other", -1
}

func goid() uint64 {
	var buf [64]byte
	n := runtime.Stack(buf[:], false)
	// "goroutine 123 [running]:"
	var id uint64
	for _, c := range buf[len("goroutine "):n] {
		if c < '0' || c > '9' {
			break
		}
		id = id*10 + uint64(c-'0')
	}
	return id
}

// Locks is the process-wide watcher (one server per process).
var Locks = &LockWatch{held: map[uint64][]heldLock{}, classes: map[string]int{}}

// Install registers the watcher with the server's lockers.
func (w *LockWatch) Install() { besync.SetVerifLockHook(w.onEvent) }

// SetIntercept installs (nil: removes) the before-acquisition callback.
func (w *LockWatch) SetIntercept(f func(class, key string, held []string)) {
	if f == nil {
		w.intercept.Store(nil)
		return
	}
	w.intercept.Store(&f)
}

// SetYield sets the yield seed (0 = no injection).
func (w *LockWatch) SetYield(seed uint64) { w.seed.Store(seed) }

// Reset forgets recorded violations and statistics (held locks are kept: they
// belong to requests in flight) and sets the yield seed (0 = no injection).
func (w *LockWatch) Reset(yieldSeed uint64) {
	w.mu.Lock()
	w.violations = nil
	w.classes = map[string]int{}
	w.maxDepth = 0
	w.mu.Unlock()
	w.events.Store(0)
	w.yields.Store(0)
	w.seed.Store(yieldSeed)
}

// Violations returns the order violations recorded since the last Reset.
func (w *LockWatch) Violations() []string {
	w.mu.Lock()
	defer w.mu.Unlock()
	return append([]string(nil), w.violations...)
}

// Stats returns counters since the last Reset.
func (w *LockWatch) Stats() (events, yields int64, classes map[string]int, maxDepth int) {
	w.mu.Lock()
	defer w.mu.Unlock()
	c := map[string]int{}
	for k, v := range w.classes {
		c[k] = v
	}
	return w.events.Load(), w.yields.Load(), c, w.maxDepth
}

// HeldSummary describes the locks currently held, per goroutine (for deadlock reports).
func (w *LockWatch) HeldSummary() string {
	w.mu.Lock()
	defer w.mu.Unlock()
	var sb strings.Builder
	for g, hs := range w.held {
		if len(hs) == 0 {
			continue
		}
		fmt.Fprintf(&sb, "goroutine %d holds:", g)
		for _, h := range hs {
			fmt.Fprintf(&sb, " %s(%s,read=%v)", h.class, h.key, h.read)
		}
		sb.WriteString("\n")
	}
	return sb.String()
}

func (w *LockWatch) maybeYield() {
	seed := w.seed.Load()
	if seed == 0 {
		return
	}
	n := w.counter.Add(1)
	x := (n + seed) * 0x9E3779B97F4A7C15
	x ^= x >> 29
	x *= 0xBF58476D1CE4E5B9
	x ^= x >> 32
	switch {
	case x%64 == 0:
		w.yields.Add(1)
		gotime.Sleep(gotime.Duration(20+(x>>8)%400) * gotime.Microsecond)
	case x%4 == 0:
		w.yields.Add(1)
		runtime.Gosched()
	}
}

func (w *LockWatch) onEvent(ev int, key string) {
	w.events.Add(1)
	class, rank := LockClass(key)
	g := goid()
	switch ev {
	case besync.VerifBeforeLock, besync.VerifBeforeRLock:
		w.mu.Lock()
		for _, h := range w.held[g] {
			if h.key == key {
				w.violations = append(w.violations, fmt.Sprintf(
					"RECURSIVE: a goroutine acquires %s lock %q (read=%v) while it already holds it (read=%v)",
					class, key, ev == besync.VerifBeforeRLock, h.read))
			} else if rank >= 0 && h.rank > rank {
				w.violations = append(w.violations, fmt.Sprintf(
					"ORDER: a goroutine acquires the %s lock %q while holding the %s lock %q (documented order: doc -> pull -> attachment -> push)",
					class, key, h.class, h.key))
			}
		}
		var heldClasses []string
		for _, h := range w.held[g] {
			heldClasses = append(heldClasses, h.class)
		}
		w.mu.Unlock()
		if f := w.intercept.Load(); f != nil {
			(*f)(class, key, heldClasses)
		}
		w.maybeYield()
	case besync.VerifLocked, besync.VerifRLocked, besync.VerifTryLocked:
		w.mu.Lock()
		w.held[g] = append(w.held[g], heldLock{key: key, class: class, rank: rank, read: ev == besync.VerifRLocked})
		w.classes[class]++
		if d := len(w.held[g]); d > w.maxDepth {
			w.maxDepth = d
		}
		if len(w.held[g]) >= 2 {
			names := make([]string, 0, 4)
			for _, h := range w.held[g] {
				names = append(names, h.class)
			}
			w.classes["nest:"+strings.Join(names, ">")]++
		}
		w.mu.Unlock()
		w.maybeYield()
	case besync.VerifUnlocked, besync.VerifRUnlocked:
		w.mu.Lock()
		if !w.dropHeld(g, key) {
			// released by another goroutine than the one that acquired it
			for og := range w.held {
				if w.dropHeld(og, key) {
					w.classes["released_on_other_goroutine"]++
					break
				}
			}
		}
		w.mu.Unlock()
		w.maybeYield()
	}
}

func (w *LockWatch) dropHeld(g uint64, key string) bool {
	hs := w.held[g]
	for i := len(hs) - 1; i >= 0; i-- {
		if hs[i].key == key {
			hs = append(hs[:i], hs[i+1:]...)
			if len(hs) == 0 {
				delete(w.held, g)
			} else {
				w.held[g] = hs
			}
			return true
		}
	}
	return false
}
