// Package world runs the real Yorkie stack in one process: server.New with
// the in-memory database, the real Connect RPC handlers on a loopback port and
// real client.Client instances whose schedule the harness owns.
package world

import (
	"context"
	"fmt"
	"net"
	"os"
	"sync"
	"sync/atomic"
	gotime "time"

	"go.uber.org/zap"

	"github.com/yorkie-team/yorkie/api/types"
	"github.com/yorkie-team/yorkie/client"
	"github.com/yorkie-team/yorkie/server"
	"github.com/yorkie-team/yorkie/server/backend"
	"github.com/yorkie-team/yorkie/server/backend/housekeeping"
	"github.com/yorkie-team/yorkie/server/backend/membership"
	"github.com/yorkie-team/yorkie/server/logging"
	"github.com/yorkie-team/yorkie/server/profiling"
	"github.com/yorkie-team/yorkie/server/rpc"
)

// ClusterSecret is the secret the in-process server is started with.
const ClusterSecret = "verif-cluster-secret"

// SecretKey is the key the in-process server signs admin tokens with.
const SecretKey = "verif-token-signing-key"

// Server is the process-wide in-memory server.
type Server struct {
	Y    *server.Yorkie
	BE   *backend.Backend
	Addr string
	DB   *DBWrap

	projMu sync.Mutex
	projs  map[string]*types.Project
	seq    int64
}

var (
	srvOnce sync.Once
	srv     *Server
)

func freePort() int {
	l, err := net.Listen("tcp", "127.0.0.1:0")
	if err != nil {
		panic(err)
	}
	defer func() { _ = l.Close() }()
	return l.Addr().(*net.TCPAddr).Port
}

// Get returns the process-wide server, starting it on first use.
func Get() *Server {
	srvOnce.Do(func() {
		_ = logging.SetLogLevel("fatal")
		InstallRecorder()
		port := freePort()
		addr := fmt.Sprintf("localhost:%d", port)
		conf := &server.Config{
			RPC: &rpc.Config{
				Port:              port,
				ReadHeaderTimeout: "5s",
				IdleTimeout:       "2m",
			},
			Profiling:  &profiling.Config{Port: freePort()},
			Membership: &membership.Config{LeaseDuration: "15s", RenewalInterval: "5s"},
			Housekeeping: &housekeeping.Config{
				Interval:             "1h",
				CandidatesLimit:      10,
				CompactionMinChanges: 1000,
			},
			Backend: &backend.Config{
				AdminUser:                     "admin",
				AdminPassword:                 "admin",
				AdminTokenDuration:            "24h",
				UseDefaultProject:             true,
				SecretKey:                     SecretKey,
				ClusterSecret:                 ClusterSecret,
				SnapshotCacheSize:             10,
				AuthWebhookCacheSize:          100,
				AuthWebhookCacheTTL:           "10s",
				GatewayAddr:                   addr,
				RPCAddr:                       addr,
				ChannelSessionTTL:             "60s",
				ChannelSessionCleanupInterval: "10s",
				ChannelSessionCountCacheTTL:   "10s",
				ChannelSessionCountCacheSize:  100,
				ClusterRPCTimeout:             "10s",
				ClusterClientTimeout:          "30s",
				ClusterClientPoolSize:         1,
				MaxConcurrentClusterRPCs:      5000,
			},
		}
		y, err := server.New(conf)
		if err != nil {
			panic(err)
		}
		if err := y.Start(); err != nil {
			panic(err)
		}
		s := &Server{Y: y, BE: y.Backend(), Addr: y.RPCAddr(), projs: map[string]*types.Project{}}
		s.DB = &DBWrap{Database: s.BE.DB}
		s.BE.DB = s.DB
		srv = s
	})
	return srv
}

// WaitIdle blocks until the fire-and-forget work of earlier requests (event
// publishing, snapshot storing) has finished. Only call it while no request
// is in flight.
func (s *Server) WaitIdle() {
	s.BE.WaitBackgroundIdleForVerif()
}

// Project returns a (cached) project with the given snapshot settings. tag
// distinguishes projects that must not share state.
func (s *Server) Project(interval, threshold int64, tag string) *types.Project {
	return s.ProjectWith(interval, threshold, tag, false)
}

// ProjectWith is Project with the RemoveOnDetach option of the project.
func (s *Server) ProjectWith(interval, threshold int64, tag string, removeOnDetach bool) *types.Project {
	return s.ProjectLimits(interval, threshold, tag, removeOnDetach, 0, 0)
}

// ProjectLimits is ProjectWith plus the per-document subscriber / attachment limits (0 = unlimited).
func (s *Server) ProjectLimits(interval, threshold int64, tag string, removeOnDetach bool, maxSubscribers, maxAttachments int) *types.Project {
	k := fmt.Sprintf("%d/%d/%s/%v/%d/%d", interval, threshold, tag, removeOnDetach, maxSubscribers, maxAttachments)
	s.projMu.Lock()
	defer s.projMu.Unlock()
	if p, ok := s.projs[k]; ok {
		return p
	}
	ctx := context.Background()
	name := fmt.Sprintf("p%d-%d", os.Getpid()%100000, atomic.AddInt64(&s.seq, 1))
	p, err := s.Y.CreateProject(ctx, name)
	if err != nil {
		panic(err)
	}
	info, err := s.BE.DB.UpdateProjectInfo(ctx, p.ID, &types.UpdatableProjectFields{
		SnapshotInterval:  &interval,
		SnapshotThreshold: &threshold,
		RemoveOnDetach:    &removeOnDetach,
		MaxSubscribersPerDocument: &maxSubscribers,
		MaxAttachmentsPerDocument: &maxAttachments,
	})
	if err != nil {
		panic(err)
	}
	pr := info.ToProject()
	s.projs[k] = pr
	return pr
}

var docSeq int64

// FreshDocKey returns a document key never used before in this process.
func FreshDocKey(prefix string) string {
	return fmt.Sprintf("%s-%d-%d", prefix, os.Getpid(), atomic.AddInt64(&docSeq, 1))
}

var nop = zap.NewNop()

// NewClient dials and activates a real client in manual sync mode.
func (s *Server) NewClient(ctx context.Context, p *types.Project) (*client.Client, error) {
	c, err := client.Dial(s.Addr,
		client.WithAPIKey(p.PublicKey),
		client.WithLogger(nop),
		client.WithSyncLoopDuration(gotime.Hour),
	)
	if err != nil {
		return nil, err
	}
	if err := c.Activate(ctx); err != nil {
		return nil, err
	}
	return c, nil
}
