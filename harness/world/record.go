package world

import (
	"bytes"
	"errors"
	"io"
	"net/http"
	"strings"
	"sync"

	"google.golang.org/protobuf/proto"

	api "github.com/yorkie-team/yorkie/api/yorkie/v1"
)

// Exchange is one recorded unary RPC of a real client.
type Exchange struct {
	Method   string // e.g. "PushPullChanges"
	Req      proto.Message
	Resp     proto.Message // nil when the server answered with an error
	HTTPCode int
	ErrBody  string
	Dropped  bool // response was discarded by the fault injector
}

// Recorder wraps http.DefaultTransport (which client.Client uses because it
// creates a plain http.Client) to record and perturb the traffic of real
// clients without touching the code under test.
type Recorder struct {
	inner http.RoundTripper

	mu   sync.Mutex
	sink func(*Exchange)
	// dropNext: if set and returns true for the decoded request, the
	// response is discarded after the server has handled the request and a
	// transport error is returned to the client ("response lost").
	dropNext func(method string, req proto.Message) bool
	// inflight: if set, called after the server has handled the request and
	// before the client sees the response (or its loss): the window in which
	// a real application goes on editing while a sync is in flight.
	inflight func(method string, req proto.Message)
}

var (
	recOnce sync.Once
	// Rec is the process-wide recorder.
	Rec *Recorder
)

// ErrResponseLost is returned to the client when the fault injector dropped
// the response.
var ErrResponseLost = errors.New("verif: response lost")

// InstallRecorder installs the recorder as http.DefaultTransport.
func InstallRecorder() {
	recOnce.Do(func() {
		Rec = &Recorder{inner: http.DefaultTransport}
		http.DefaultTransport = Rec
	})
}

// SetSink sets the function called for every recorded exchange (nil = off).
func (r *Recorder) SetSink(f func(*Exchange)) {
	r.mu.Lock()
	defer r.mu.Unlock()
	r.sink = f
}

// SetInflight installs the in-flight callback (nil = off).
func (r *Recorder) SetInflight(f func(method string, req proto.Message)) {
	r.mu.Lock()
	defer r.mu.Unlock()
	r.inflight = f
}

// SetDrop installs a response-dropping predicate (nil = off).
func (r *Recorder) SetDrop(f func(method string, req proto.Message) bool) {
	r.mu.Lock()
	defer r.mu.Unlock()
	r.dropNext = f
}

func newMessages(method string) (proto.Message, proto.Message) {
	switch method {
	case "ActivateClient":
		return &api.ActivateClientRequest{}, &api.ActivateClientResponse{}
	case "DeactivateClient":
		return &api.DeactivateClientRequest{}, &api.DeactivateClientResponse{}
	case "AttachDocument":
		return &api.AttachDocumentRequest{}, &api.AttachDocumentResponse{}
	case "DetachDocument":
		return &api.DetachDocumentRequest{}, &api.DetachDocumentResponse{}
	case "RemoveDocument":
		return &api.RemoveDocumentRequest{}, &api.RemoveDocumentResponse{}
	case "PushPullChanges":
		return &api.PushPullChangesRequest{}, &api.PushPullChangesResponse{}
	}
	return nil, nil
}

// RoundTrip implements http.RoundTripper.
func (r *Recorder) RoundTrip(req *http.Request) (*http.Response, error) {
	r.mu.Lock()
	sink, drop, inflight := r.sink, r.dropNext, r.inflight
	r.mu.Unlock()
	if (sink == nil && drop == nil && inflight == nil) || !strings.HasPrefix(req.URL.Path, "/yorkie.v1.YorkieService/") ||
		req.Header.Get("Content-Type") != "application/proto" {
		return r.inner.RoundTrip(req)
	}
	method := strings.TrimPrefix(req.URL.Path, "/yorkie.v1.YorkieService/")
	pbReq, pbResp := newMessages(method)
	if pbReq == nil {
		return r.inner.RoundTrip(req)
	}

	body, err := io.ReadAll(req.Body)
	_ = req.Body.Close()
	if err != nil {
		return nil, err
	}
	req.Body = io.NopCloser(bytes.NewReader(body))
	req.ContentLength = int64(len(body))
	req.Header.Del("Accept-Encoding")
	req.Header.Set("Accept-Encoding", "identity")
	if err := proto.Unmarshal(body, pbReq); err != nil {
		return nil, err
	}

	resp, err := r.inner.RoundTrip(req)
	if err != nil {
		return nil, err
	}
	respBody, err := io.ReadAll(resp.Body)
	_ = resp.Body.Close()
	if err != nil {
		return nil, err
	}
	if inflight != nil {
		inflight(method, pbReq)
	}
	ex := &Exchange{Method: method, Req: pbReq, HTTPCode: resp.StatusCode}
	if resp.StatusCode == http.StatusOK {
		if err := proto.Unmarshal(respBody, pbResp); err != nil {
			return nil, err
		}
		ex.Resp = pbResp
	} else {
		ex.ErrBody = string(respBody)
	}
	if drop != nil && drop(method, pbReq) {
		ex.Dropped = true
		if sink != nil {
			sink(ex)
		}
		return nil, ErrResponseLost
	}
	if sink != nil {
		sink(ex)
	}
	resp.Body = io.NopCloser(bytes.NewReader(respBody))
	resp.ContentLength = int64(len(respBody))
	return resp, nil
}
