// Package stats collects what a check actually covered and writes it as one
// JSON file per shard; the driver merges the shards into the evidence file.
package stats

import (
	"encoding/json"
	"fmt"
	"os"
	"path/filepath"
	"sort"
	"strconv"
	"sync"
	"time"
)

// Violation is one recorded failing case.
type Violation struct {
	Replay string `json:"replay"`
	Kind   string `json:"kind"`
	Msg    string `json:"msg"`
}

// Collector accumulates the coverage of one shard of one check.
type Collector struct {
	mu          sync.Mutex
	Prop        string
	Part        string
	Evaluations int
	nonTrivial  map[uint64]struct{}
	Classes     map[string]int
	Excluded    map[string]int
	Samples     []any
	Violations  []Violation
	Notes       []string
	Exhaustive  *bool
	Extra       map[string]any
	start       time.Time
	maxSamples  int
	sinceFlush  int
}

// New creates a collector for the given property and part name.
func New(prop, part string) *Collector {
	return &Collector{
		Prop: prop, Part: part,
		nonTrivial: map[uint64]struct{}{},
		Classes:    map[string]int{},
		Excluded:   map[string]int{},
		Extra:      map[string]any{},
		start:      time.Now(),
		maxSamples: 3,
	}
}

// Record counts one evaluated case.
func (c *Collector) Record(hash uint64, nonTrivial bool, classes map[string]int, sample func() any) {
	c.mu.Lock()
	defer c.mu.Unlock()
	c.Evaluations++
	for k, v := range classes {
		if v > 0 {
			if len(k) > 9 && k[:9] == "excluded:" {
				c.Excluded[k[9:]] += v
			} else {
				c.Classes[k]++
			}
		}
	}
	if nonTrivial {
		if _, seen := c.nonTrivial[hash]; !seen {
			c.nonTrivial[hash] = struct{}{}
			if len(c.Samples) < c.maxSamples && sample != nil {
				c.Samples = append(c.Samples, sample())
			}
		}
	}
	c.sinceFlush++
	if c.sinceFlush >= 500 {
		c.sinceFlush = 0
		c.flushLocked()
	}
}

// AddViolation records a failing case.
func (c *Collector) AddViolation(v Violation) {
	c.mu.Lock()
	defer c.mu.Unlock()
	c.Violations = append(c.Violations, v)
	c.flushLocked()
}

// Note adds a free-text note.
func (c *Collector) Note(format string, a ...any) {
	c.mu.Lock()
	defer c.mu.Unlock()
	c.Notes = append(c.Notes, fmt.Sprintf(format, a...))
}

// SetExhaustive records whether a finite space was enumerated completely.
func (c *Collector) SetExhaustive(b bool) {
	c.mu.Lock()
	defer c.mu.Unlock()
	c.Exhaustive = &b
}

// SetExtra stores an extra coverage key.
func (c *Collector) SetExtra(k string, v any) {
	c.mu.Lock()
	defer c.mu.Unlock()
	c.Extra[k] = v
}

// NonTrivial returns the number of distinct non-trivial cases so far.
func (c *Collector) NonTrivial() int {
	c.mu.Lock()
	defer c.mu.Unlock()
	return len(c.nonTrivial)
}

type shardFile struct {
	Prop        string         `json:"prop"`
	Part        string         `json:"part"`
	Evaluations int            `json:"evaluations"`
	NonTrivial  []string       `json:"nontrivial_hashes"`
	Classes     map[string]int `json:"classes"`
	Excluded    map[string]int `json:"excluded"`
	Samples     []any          `json:"samples"`
	Violations  []Violation    `json:"violations"`
	Notes       []string       `json:"notes"`
	Exhaustive  *bool          `json:"exhaustive,omitempty"`
	Extra       map[string]any `json:"extra"`
	WallS       float64        `json:"wall_s"`
	Done        bool           `json:"done"`
}

func (c *Collector) flushLocked() { c.write(false) }

// Flush writes the shard file; done marks a completed shard.
func (c *Collector) Flush(done bool) {
	c.mu.Lock()
	defer c.mu.Unlock()
	c.write(done)
}

func (c *Collector) write(done bool) {
	out := os.Getenv("VERIF_OUT")
	if out == "" {
		return
	}
	hs := make([]string, 0, len(c.nonTrivial))
	for h := range c.nonTrivial {
		hs = append(hs, strconv.FormatUint(h, 16))
	}
	sort.Strings(hs)
	sf := shardFile{
		Prop: c.Prop, Part: c.Part, Evaluations: c.Evaluations, NonTrivial: hs,
		Classes: c.Classes, Excluded: c.Excluded, Samples: c.Samples, Violations: c.Violations,
		Notes: c.Notes, Exhaustive: c.Exhaustive, Extra: c.Extra,
		WallS: time.Since(c.start).Seconds(), Done: done,
	}
	b, err := json.Marshal(sf)
	if err != nil {
		return
	}
	path := out
	if c.Part != "" {
		path = out + "." + c.Part
	}
	_ = os.MkdirAll(filepath.Dir(path), 0o755)
	tmp := path + ".tmp"
	if err := os.WriteFile(tmp, b, 0o644); err == nil {
		_ = os.Rename(tmp, path)
	}
}
