"""Per-property check specification consumed by ./check.

parts: name, test (Go test function in harness/<pkg>), checks [quick, thorough]
(= rapid case count per shard, or fuzz seconds), shards [quick, thorough],
timeout [quick, thorough] seconds, optional race / pkg / kind / env / tier.
"""

SPEC = {
    "C01": {
        "level": "exploration",
        "rule": "random programs (2..5 real clients, generated edits over objects/arrays incl. move/text incl. style/counters/"
                "structure-preserving tree edits, sync/push-only/late attach/detach/re-attach steps, offline stretches) run through the "
                "in-process server; oracle: no failing sync/attach, byte-identical Marshal() on all attached replicas after a "
                "quiescent round, clone==root, and (twin) same content when the final round runs in reverse peer order. "
                "non-trivial = the stored log contains >=1 pair of changes with operations by different actors whose version "
                "vectors are incomparable (real concurrency); distinct = distinct program hash",
        "assumptions": ["in-memory database backend (MongoDB cannot run offline)", "Go SDK peers only"],
        "parts": [
            {"name": "random", "test": "TestC01", "checks": [1500, 15000], "shards": [4, 14], "timeout": [900, 7200]},
        ],
    },
    "C02": {
        "level": "exploration",
        "rule": "C01-style programs in projects with snapshot interval/threshold drawn from 1..6, late attachers, detach/re-attach, "
                "snapshot-cache purge/remove steps and a tail of further edits made on top of snapshot-fed replicas; oracles: "
                "replicas agree after each quiescent round, a twin run of the same program in a project that never snapshots "
                "(pure change replay) ends in the same content, and BuildInternalDocForServerSeq(s) (cold cache) equals a "
                "from-scratch replay of the stored log prefix for every serverSeq s. non-trivial = >=1 snapshot pull occurred AND "
                ">=1 remote change was later applied on a snapshot-fed replica; distinct = distinct program hash",
        "assumptions": ["in-memory database backend", "twin contents compared only when actor ids sort in activation order in both runs (counted as twin_incomparable otherwise)"],
        "parts": [
            {"name": "twin", "test": "TestC02", "checks": [700, 8000], "shards": [4, 14], "timeout": [900, 7200]},
        ],
    },
    "C03": {
        "level": "exploration",
        "rule": "delete/move/overwrite-biased programs (clients holding unsent edits while peers sync repeatedly, late attachers, "
                "detach/re-attach, with and without small snapshot thresholds) run twice: garbage collection on (client GC + server GC before "
                "snapshots) and off (document.WithDisableGC on every replica + SnapshotDisableGC); oracles: no Sync/Attach fails in either run, "
                "BuildInternalDocForServerSeq succeeds and equals the log replay at every serverSeq, and contents after each quiescent round are "
                "equal across the two runs. non-trivial = some replica purged >=1 tombstone and later applied a remote change, or a "
                "snapshot-fed replica (server GC) later applied a remote change; distinct = distinct program hash",
        "assumptions": ["in-memory database backend", "twin contents compared only when actor ids sort in activation order in both runs"],
        "parts": [
            {"name": "twin", "test": "TestC03", "checks": [600, 8000], "shards": [4, 14], "timeout": [900, 7200]},
        ],
    },
}
