"""Per-property check specification consumed by ./check.

parts: name, test (Go test function in harness/<pkg>), checks [quick, thorough]
(= rapid case count per shard, or fuzz seconds), shards [quick, thorough],
timeout [quick, thorough] seconds, optional race / pkg / kind / env / tier.
"""

SPEC = {
    "C01": {
        "level": "exploration",
        "rule": "random programs (2..5 real clients, generated edits over objects/arrays incl. move/text incl. style/counters/"
                "structure-preserving tree edits, sync/push-only/late attach/detach/re-attach steps, offline stretches) run through the "
                "in-process server; oracle: no failing sync/attach, byte-identical Marshal() on all attached replicas after a "
                "quiescent round, clone==root, and (twin) same content when the final round runs in reverse peer order. "
                "non-trivial = the stored log contains >=1 pair of changes with operations by different actors whose version "
                "vectors are incomparable (real concurrency); distinct = distinct program hash",
        "assumptions": ["in-memory database backend (MongoDB cannot run offline)", "Go SDK peers only"],
        "parts": [
            {"name": "random", "test": "TestC01", "checks": [1500, 15000], "shards": [4, 14], "timeout": [900, 7200]},
        ],
    },
}
