"""Per-property check specification consumed by ./check.

parts: name, test (Go test function in harness/<pkg>), checks [quick, thorough]
(= rapid case count per shard, or fuzz seconds), shards [quick, thorough],
timeout [quick, thorough] seconds, optional race / pkg / kind / env / tier.
"""

SPEC = {
    "C01": {
        "level": "exploration",
        "rule": "random programs (2..5 real clients, generated edits over objects/arrays incl. move/text incl. style/counters/"
                "structure-preserving tree edits, sync/push-only/late attach/detach/re-attach steps, offline stretches) run through the "
                "in-process server; oracle: no failing sync/attach, byte-identical Marshal() on all attached replicas after a "
                "quiescent round, clone==root, and (twin) same content when the final round runs in reverse peer order. "
                "non-trivial = the stored log contains >=1 pair of changes with operations by different actors whose version "
                "vectors are incomparable (real concurrency); distinct = distinct program hash",
        "assumptions": ["in-memory database backend (MongoDB cannot run offline)", "Go SDK peers only"],
        "parts": [
            {"name": "random", "test": "TestC01", "checks": [1500, 6000], "shards": [4, 14], "timeout": [900, 7200]},
        ],
    },
    "C02": {
        "level": "exploration",
        "rule": "C01-style programs in projects with snapshot interval/threshold drawn from 1..6, late attachers, detach/re-attach, "
                "snapshot-cache purge/remove steps and a tail of further edits made on top of snapshot-fed replicas; oracles: "
                "replicas agree after each quiescent round, a twin run of the same program in a project that never snapshots "
                "(pure change replay) ends in the same content, and BuildInternalDocForServerSeq(s) (cold cache) equals a "
                "from-scratch replay of the stored log prefix for every serverSeq s. non-trivial = >=1 snapshot pull occurred AND "
                ">=1 remote change was later applied on a snapshot-fed replica; distinct = distinct program hash",
        "assumptions": ["in-memory database backend", "twin contents compared only when actor ids sort in activation order in both runs (counted as twin_incomparable otherwise)"],
        "parts": [
            {"name": "twin", "test": "TestC02", "checks": [700, 2500], "shards": [4, 14], "timeout": [900, 7200]},
        ],
    },
    "C03": {
        "level": "exploration",
        "rule": "delete/move/overwrite-biased programs (clients holding unsent edits while peers sync repeatedly, late attachers, "
                "detach/re-attach, with and without small snapshot thresholds) run twice: garbage collection on (client GC + server GC before "
                "snapshots) and off (document.WithDisableGC on every replica + SnapshotDisableGC); oracles: no Sync/Attach fails in either run, "
                "BuildInternalDocForServerSeq succeeds and equals the log replay at every serverSeq, and contents after each quiescent round are "
                "equal across the two runs. non-trivial = some replica purged >=1 tombstone and later applied a remote change, or a "
                "snapshot-fed replica (server GC) later applied a remote change; distinct = distinct program hash",
        "assumptions": ["in-memory database backend", "twin contents compared only when actor ids sort in activation order in both runs"],
        "parts": [
            {"name": "twin", "test": "TestC03", "checks": [600, 2500], "shards": [4, 14], "timeout": [900, 7200]},
        ],
    },
    "C04": {
        "level": "exploration",
        "rule": "sequential part: random programs (2..6 real clients; edits incl. presence-only changes; sync, push-only, late attach, detach; "
                "with and without snapshot thresholds) whose every request/response pack is recorded by a transport-level recorder; oracle over "
                "the recorded history and the final stored log: serverSeq = 1..N contiguous, per actor clientSeq = 1..k in log order, response "
                "checkpoints monotone and <= head, and the concatenation of the change lists delivered to each client (since its last snapshot) "
                "equals exactly the log rows of the other actors in that range, in order (no loss, duplicate or echo). parallel part (race build): "
                "goroutine clients hammer one document; same invariants on the final log and deliveries. non-trivial = >=1 pair of concurrent "
                "changes by different actors and >2 change pulls (seq) / >=2 requests overlapped in time (par); distinct = distinct program hash. "
                "part inflight (race build): generated episodes in which ONE client has two requests on the document in flight together (the original "
                "and its repetition with the identical pack or one more change: PushPull/push-only, then PushPull/push-only/Detach) under a schedule "
                "the harness owns - the first is parked at a drawn point inside the server (before its 2nd/3rd lock acquisition via hook H3, or "
                "before/after CreateChangeInfos, UpdateClientInfoAfterPushPull, the pull range read via the DB decorator), the second is started "
                "and observed to wait on a lock (or finish), optionally the other client pushes in between, then the first is released; oracle: both "
                "return, no stored change twice (actor, lamport), gap-free log, the observer's counter equals the number of increases (exactly once), "
                "replicas converge; non-trivial = the first request was parked and the second was seen waiting on a lock",
        "assumptions": ["in-memory database: memdb serialises write transactions, so the doc-push lock is redundant for seq assignment on this backend (MongoDB-only races are out of reach)"],
        "parts": [
            {"name": "seq", "test": "TestC04", "checks": [1200, 5000], "shards": [4, 14], "timeout": [900, 7200]},
            {"name": "par", "test": "TestC04Par", "pkg": "c16", "race": True, "checks": [40, 300], "shards": [4, 14], "timeout": [900, 7200]},
            {"name": "inflight", "test": "TestC04Inflight", "pkg": "c16", "race": True, "checks": [60, 300], "shards": [4, 8], "timeout": [900, 7200]},
        ],
    },
    "C06": {
        "level": "exploration",
        "rule": "random programs (2..5 clients, full edit alphabet, sync/push-only/late attach/detach/re-attach with a new replica, with and "
                "without snapshot thresholds, tail edits) with every pack recorded; oracle: (a) at creation time of every local change with "
                "operations, its lamport exceeds and its version vector dominates the clocks of every change the replica had applied before "
                "(tracked by the harness from the recorded deliveries and snapshots) and vv[self]==lamport; (b) over the stored log: "
                "vv[actor]==lamport, (lamport,actor) unique, per-actor lamports increase; (c) every non-snapshot response's minimum vector is "
                "pointwise <= the vector each currently attached participating client sent in its own latest request (absent = 0). "
                "non-trivial = >=1 minVV check and >=1 causality check in a case containing a snapshot response, detach, re-attach or late attach",
        "assumptions": ["presence-only changes carry no clock by design and are skipped", "edits are only generated after Attach"],
        "parts": [
            {"name": "history", "test": "TestC06", "checks": [1200, 5000], "shards": [4, 14], "timeout": [900, 7200]},
        ],
    },
    "C05": {
        "level": "fault_enumeration",
        "rule": "for each generated program (2..3 real clients; counters/text/arrays/objects/presence; sync, push-only, late attach; with and "
                "without snapshot thresholds) a fault-free twin run records every storage event (wrapped database call x {before, after it took "
                "effect}) issued by the handler of every sync step; every such event and the loss of every response is a fault point (all of "
                "them up to a cap per program, a seeded sample above it); the program is re-run once per point with that single fault, the "
                "client retries the identical pack, and the run must: let the retry succeed, keep every (actor, clientSeq) at most once in a "
                "gap-free log, converge, and (immediate retry) end with the same counter value as the fault-free twin and, when neither run contains concurrent changes, in the same content. non-trivial = the fault fired while the pack "
                "carried >=1 change; distinct = distinct (program, fault point). part inflight (c16, race build): the repetition is sent while the "
                "original is STILL IN FLIGHT (client-side timeout / reconnect / background sync overlapping a detach) under an owned schedule - see C04 "
                "part inflight for the generator; oracle: both return (or a sequential retry succeeds), every carried edit exactly once (log, counter), convergence",
        "assumptions": ["in-memory database backend", "faults are injected at the Database interface (decorator), one per run",
                        "fault points inside the window of known finding F12 are excluded by construction and counted"],
        "parts": [
            {"name": "faults", "test": "TestC05", "checks": [60, 200], "shards": [8, 14], "timeout": [900, 7200]},
            {"name": "inflight", "test": "TestC05Inflight", "pkg": "c16", "race": True, "checks": [60, 300], "shards": [4, 8], "timeout": [900, 7200]},
        ],
    },
    "C12": {
        "level": "exploration",
        "rule": "random programs mixing presence set/clear with edits, attaches with/without initial presence and with/without the "
                "disable-presence request (first attacher fixes the document flag, later ones draw the opposite on purpose), detach, re-attach, "
                "deactivate, late attach, snapshot thresholds; oracle on presence-enabled documents after each quiescent round: every attached "
                "replica's AllPresences() contains exactly the attached actors that show themselves, each with the value the actor's own replica "
                "shows, and no detached/deactivated actor; on presenceless documents: no stored log row carries presence or is presence-only, no "
                "response change and no snapshot carries presence, no replica shows another actor. non-trivial = >=2 presence writes and a "
                "detach/deactivate/late attach/snapshot pull in the case; distinct = distinct program hash",
        "assumptions": ["the local presence map of a client that asked for presence on a presenceless document is not asserted (outside the property's quantifier)"],
        "parts": [
            {"name": "random", "test": "TestC12", "checks": [1500, 5000], "shards": [4, 14], "timeout": [900, 7200]},
        ],
    },
    "C10": {
        "level": "exploration",
        "rule": "a generated C01-style history (with and without snapshot thresholds) is brought to a quiescent point, then: (optionally) a non-forced "
                "compaction while clients are attached must report not-compacted and leave epoch/head/rows unchanged; then either every client "
                "detaches and a non-forced compaction must succeed, or clients make unsent edits and a forced compaction runs through the real "
                "cluster RPC; oracle: epoch strictly increases; a fresh attach shows byte-identical content to before; each stale client draws "
                "{sync, detach}: the sync fails with ErrEpochMismatch and the log gains no row, the detach succeeds, marks the client detached and "
                "stores no old-generation operations; fresh clients continue with generated edits and converge; optional second compaction. "
                "non-trivial = a compaction happened and a stale client holding unsent edits synced afterwards (forced mode) or >2 edits preceded "
                "a detached-mode compaction; distinct = distinct program hash",
        "assumptions": ["in-memory database backend", "compaction is driven through documents.CompactDocument (the cluster RPC path with the exclusive document lock)"],
        "parts": [
            {"name": "random", "test": "TestC10", "checks": [1000, 4000], "shards": [4, 14], "timeout": [900, 7200]},
        ],
    },
    "C15": {
        "level": "exploration",
        "rule": "(enum) small-scope exhaustive sub-scope of the scope the property names: 2 clients on a base state with tombstones, one edit "
                "per client from 10 templates (2 per family: object, array, text, counter, tree; all 100 pairs, so also edits of different "
                "containers), one undo and an optional redo by either client, every interleaving, every placement of <=3 sync steps in the gaps "
                "(406 200 words; quick runs every 40th word offset by the seed, thorough all of them, exhaustive:true); (random) generated "
                "programs over the C14 content alphabet with undo/redo steps, 2..4 clients, arbitrary syncs, client GC on and off. oracle as C01: "
                "no failing sync/undo/redo, byte-identical replicas after the quiescent round, clone==root. Words/steps that trigger the listed "
                "known findings F6, F10, F11 are rewritten by construction and counted. non-trivial = an undo/redo was executed in a case with "
                "concurrent changes or a client-side GC purge; distinct = distinct program hash",
        "assumptions": ["the full scope named by the property (3 edits per client, 2 undo/redo) is > 1e8 histories and is sampled by the random part, not enumerated"],
        "parts": [
            {"name": "enum", "test": "TestC15Enum", "kind": "enum", "checks": [0, 0], "shards": [6, 14], "timeout": [900, 7200]},
            {"name": "random", "test": "TestC15", "checks": [800, 4000], "shards": [4, 14], "timeout": [900, 7200]},
        ],
    },
    "C19": {
        "level": "exploration",
        "rule": "the five upstream operation x range matrices (edit-edit 9x10x10, split-split 5x8x8, split-edit 9x2x8, style-style 4x6x6, "
                "edit-style 7x6x2 = 1592 pairs) re-expressed as data and enumerated x clock arrangement / role assignment {upstream: client 1 "
                "(first activated, creates the tree) makes op 1 and client 2 op 2; swapped: client 2 makes op 1 and client 1 op 2; skew-op1 / "
                "skew-op2: upstream roles, the maker of op 1 / op 2 first makes 3 unseen local changes on another root key so that its operation "
                "carries the later lamport; thorough tier also tie / tie-swapped: the client whose clock is behind levels it, equal lamports, the "
                "actor id decides} x both push orders x {no third client, a third passive client attaching after both pushes, one attaching "
                "between the two pushes and receiving the second edit as a change; snapshot-threshold project, the third client is fed by a "
                "snapshot, the editors pull plain changes} = 38208 named cases in the quick tier (4 arrangements), 57312 in the thorough tier "
                "(6 arrangements), each on fresh documents and fresh clients through the real server; every tier runs every case of its space "
                "(exhaustive:true), shards take residue classes of the pair index. oracle: no failing step, all replicas' Marshal() equal, and "
                "on each replica the user copy's tree XML equals the real document's. Measured per case and counted: which operation carries the "
                "later ticket (lamport, then actor id), whether actor ids sort in activation order, whether the third client's attach was answered "
                "with a snapshot (exhaustive only if in all third-client cases) and whether an editor was. The 54 (quick: 36) named cases of the "
                "known finding on merge-vs-deletion-of-the-merge-source with the merge carrying the later ticket are not run and counted as "
                "excluded. non-trivial = both operations changed the tree on their editor (a merge whose computed range is empty is trivial); "
                "distinct = distinct case index",
        "assumptions": ["in-memory database backend", "matrix rows are upstream's (test/complex/tree_concurrency_test.go)",
                        "actor ids are server-assigned; the arrangement labels assume they sort in activation order, which is verified in every case "
                        "(the count of cases where it does not hold is in the evidence) and the later-ticket classes are measured, not assumed"],
        "parts": [
            {"name": "matrix", "test": "TestC19", "kind": "enum", "checks": [0, 0], "shards": [16, 16], "timeout": [900, 3600]},
        ],
    },
    "C11": {
        "level": "exploration",
        "rule": "(enum) every word over the 28-letter alphabet {Activate, Deactivate, Attach(d) with a new instance, Attach(d) re-using the detached instance, "
                "Attach(d) with a broken pack (hole in the client sequence: refused, leaves the document 'attaching' for the client), PushPull(d) with a change, Detach(d), Remove(d)} x 2 "
                "clients x 2 documents, up to length 4 (quick) / 5 (thorough), one representative per client/document renaming class "
                "(exhaustive:true within that bound; the count is in the evidence; the length-6 scope the property names is sampled by "
                "the random part), sent through raw RPC peers so that invalid calls reach the server; (random) words of length 6..10 biased "
                "towards deep states. oracle: a reference automaton written from docs/design/document-client-lifecycle.md decides accept/reject "
                "per call; a rejected call must not add stored operation rows; an accepted PushPull/Detach stores exactly its change; after "
                "Remove every later response on that document carries the removed flag and its stored rows no longer grow, and a new attach of "
                "the key gets a new document id; at the end the server's per-client document statuses equal the model's and a client that is "
                "the only one still attached can collect all its garbage within 3 syncs (detached/deactivated clients do not hold back GC). "
                "non-trivial = the word contains >=1 rejected call and >=1 accepted state-changing call; distinct = distinct word. "
                "(conc, race build) 1..3 raw peers next to one attached witness client, each 1..4 rounds of attach, 0..3 synced edits, then Detach or "
                "Deactivate IN FLIGHT TOGETHER with 1..3 PushPulls of the same client for the same document (drawn send order); oracle: whatever "
                "order the server chooses the outcome is one the sequential machine allows - the lifecycle call succeeds, the server records the "
                "document detached (client deactivated), no change is stored twice, a Detach stores every change it carried, a PushPull sent afterwards "
                "is refused and stores nothing, and at the end the witness (only client still attached) collects the garbage it creates; "
                "non-trivial (conc) = >=1 such racing group ran",
        "assumptions": ["in-memory database backend", "Attach always uses a new Document instance (re-attaching a detached instance is documented as unsupported)",
                        "the conc part samples schedules; a found failure is replayed by running the case 30 times"],
        "parts": [
            {"name": "enum", "test": "TestC11Enum", "kind": "enum", "checks": [0, 0], "shards": [8, 14], "timeout": [900, 7200]},
            {"name": "random", "test": "TestC11Random", "checks": [1500, 8000], "shards": [4, 14], "timeout": [900, 7200]},
            {"name": "conc", "test": "TestC11Conc", "pkg": "c16", "race": True, "checks": [60, 600], "shards": [4, 12], "timeout": [900, 7200]},
        ],
    },
    "C13": {
        "level": "exploration",
        "rule": "every procedure of the Yorkie, Admin and Cluster services, enumerated from the generated protoreflect service descriptors (64 today; "
                "new ones join automatically; each gets the same share of the budget), is called over raw Connect HTTP (unary application/proto; "
                "5-byte envelope for the streaming ones) with a request whose identifier fields (client_id, document_id, document_key(s), "
                "project_name/id, revision_id, schema_name, username, ...) are drawn from pools {attacker's own, victim's, random well-formed, "
                "malformed} (biased 2:1 towards the victim's), valid change packs, and every credential in {none (= default project), attacker's "
                "public key, attacker's secret key (API-Key scheme), attacker's admin token, the victim's ROTATED-OUT public/secret keys, "
                "garbage, wrong/right cluster secret}. Three projects owned by three users are populated with a client, two documents (one key "
                "shared by all projects) with planted marker content, a revision and a schema; the victim is never called with its own credentials. "
                "oracle for every non-owner credential: the victim project's stored rows read through the Database interface (project, client, "
                "documents, change log, snapshot, min vector, revisions, schemas, members) serialise byte-identically before and after; the raw "
                "response contains none of the victim's planted markers, keys or token; Admin procedures (except the four password-authenticated ones) without a valid admin credential and Cluster procedures "
                "without the cluster secret answer unauthenticated; rotated-out or garbage credentials never succeed. The same generated "
                "requests are also sent with the OWNER's credentials to a control project and the successes counted per procedure (non-vacuity). "
                "Admin credentials also include tokens of the attacker's existing user signed with the server's key whose lifetime ended 2 s .. 47 h ago, "
                "and tokens signed with another key: both must answer unauthenticated. "
                "non-trivial = the request carried >=1 victim identifier and was answered by the handler (not by the credential check); "
                "distinct = distinct (procedure, credential, picks). "
                "webhook part: two projects with an authorization webhook each (a local HTTP server with a fixed allow/deny/unauthenticated policy "
                "over five tokens, different per project); generated sequences of 2..10 requests (project, token, ActivateClient | AttachDocument | "
                "DeactivateClient, document key); oracle: the server's decision is the decision of that project's webhook for that token, whatever "
                "was asked (and cached) before; non-trivial (webhook) = the same (token, procedure, key) was sent to both projects and their policies differ for it",
        "assumptions": ["in-memory database backend", "the matrix part runs without auth webhooks; the webhook part covers ActivateClient/AttachDocument/DeactivateClient only", "'no credential' resolves to the default project by design (UseDefaultProject) and is treated as one more foreign project"],
        "parts": [
            {"name": "matrix", "test": "TestC13", "checks": [2500, 15000], "shards": [4, 14], "timeout": [900, 7200]},
            {"name": "webhook", "test": "TestC13Webhook", "checks": [150, 3000], "shards": [2, 4], "timeout": [900, 7200]},
        ],
    },
    "C20": {
        "level": "exploration",
        "rule": "(c) snapshot cache end-to-end: C02-style programs (snapshot interval/threshold 1..6, late attachers, cache purge/remove steps) "
                "with history-view steps = documents.GetDocumentByServerSeq at a drawn OLDER serverSeq (what AdminService.GetSnapshotMeta does) "
                "placed before late attaches and lagging syncs, also in the tail; oracle: every history view and, after each quiescent round, "
                "12 BuildInternalDocForServerSeq calls in a drawn order of sequences WITHOUT touching the cache in between (so newer and older "
                "cached documents are met) return exactly the content of the stored log prefix replayed from scratch (no cache, no GC) at the "
                "requested serverSeq; every sync/attach (snapshot pulls included) succeeds and replicas agree. non-trivial = >=1 warm-cache "
                "build checked in a case with a snapshot pull and a history view or a cache purge/remove; distinct = distinct program hash.",
        "assumptions": ["the MongoDB-side caches (doc/changes caches in front of Mongo) are covered only through the exported, DB-free ChangeStore (part a)"],
        "parts": [
            {"name": "snapcache", "test": "TestC20Snap", "checks": [600, 3000], "shards": [4, 14], "timeout": [900, 7200]},
        ],
    },
}

# Entries delivered next to their check package (harness/<pkg>/SPEC.py.txt).
import glob as _glob, os as _os
for _f in sorted(_glob.glob(_os.path.join(_os.path.dirname(_os.path.abspath(__file__)), "harness", "*", "SPEC.py.txt"))):
    _d = eval("{" + open(_f).read() + "}")
    for _k, _v in _d.items():
        if _k in SPEC:
            # a property served by several packages: concatenate the parts and the texts
            SPEC[_k]["parts"] = _v["parts"] + SPEC[_k]["parts"]
            SPEC[_k]["rule"] = _v["rule"] + " " + SPEC[_k]["rule"]
            SPEC[_k]["assumptions"] = _v.get("assumptions", []) + SPEC[_k].get("assumptions", [])
        else:
            SPEC[_k] = _v
